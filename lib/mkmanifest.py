#!/usr/bin/env python3
"""Regenerates MANIFEST.json from the table below (kept next to the code so it stays current)."""
import json, os
V = os.path.dirname(os.path.dirname(os.path.abspath(__file__)))
NOTE = ("Trusted base: Coq 8.16.1 kernel (vm_compute, no native_compute), no axioms (Print Assumptions closed for every Props theorem), "
        "translator/gen.py, extraction with ExtrOcamlBasic only + ocaml/driver.ml, the Rust harness; hand-written models are tied to the code "
        "by the correspondence streams (differential testing), generated Gen/*.v by the translator.")
CLAIMS = {
 'C08': dict(
   text="Machine-checked theorems (Props/C08.v): 4&4, 5&3 and 6&2 sector codecs round-trip for EVERY 256-byte content incl. checksum, and the 3.5 inch codec "
        "(three rotating checksums, 6&2 packing, 703 nibbles) for EVERY 524-byte content, over the nibble tables and layout constants regenerated from disk525.rs / disk35.rs "
        "on every run (table injectivity/MSB/reserved-byte facts re-proved each run); a write to a formatted 5.25 or 3.5 inch track replaces the data field of the one "
        "position carrying the sector number and no other bit, a sector number not on the track changes nothing, the 3.5 inch layout uses exactly the zone's bit count. "
        "Tie: whole-track buffers of NIB/WOZ1/WOZ2 (5.25) and WOZ2 400K/800K (every zone) after arbitrary writes must equal the model's rendering bit for bit, the data-field "
        "nibbles and decode outcomes of 3.5 inch sectors must equal the extracted codec; impl-side oracle runs read-after-write / non-interference / invalid-address sequences "
        "in every address space of every container. The soft-latch search over the bit stream (find_sector) is tied by correspondence only.",
   technique="Coq proof (codec round trips, generated tables) + translator tie + extracted-model differential correspondence + implementation-side oracle search",
   design_ref="DESIGN.md section 5 C08"),
}
CLAIMS['C07'] = dict(
   text="Machine-checked theorems (Props/C07.v) over tables regenerated from bios/skew.rs, img/disk35.rs, img/imd.rs, img/td0.rs on every run: the DOS 3.3 "
        "logical/physical tables are mutually inverse permutations; every DOS, ProDOS and Apple-CP/M block occupies the same physical sectors (order and offsets) in DO "
        "and NIB/WOZ images; the ProDOS block map tiles the 560 sectors; the 3.5in zone maps are injective and in range; IMD and TD0 carry identical skew tables, each a "
        "permutation. Tie: for every container the records a block write actually touches (found by scanning all physical sectors) must equal the model's cells; "
        "impl-side oracle applies the same write history to every container of a kind and compares every block and every physical sector pairwise. FS-level histories are added with the FS models.",
   technique="Coq proof over generated skew/zone tables (finite sweeps lifted by lemma) + cell-probe correspondence + cross-container oracle",
   design_ref="DESIGN.md section 5 C07")
FS_NOTE = (" Model: Fs/Spec.v, one state machine parameterised by the file system (allocation policy, index overhead, directory capacity and growth, holes, locking), "
           "tied to the code by the fs-history correspondence stream: the extracted model must reproduce result class, reported free units, listing and chunk indices after EVERY step "
           "of random, directory-fill and exact-fit histories on DOS 3.2/3.3, ProDOS, Pascal, CP/M, FAT over their containers; its initial state is read off the freshly formatted image by "
           "independent readers (harness/src/fsck). Implementation-side oracles (the property's own wording, evaluated on the real file systems incl. CP/M 3 and invalid names) do the failing-input search.")
for pid, text, tech in [
  ('C01', "Theorems (Props/C01.v) for every parameter record, state, path and chunk set: an accepted put is what lookup returns (indices, holes), and it stays so under every later history that does not target the path.", "Coq proof (put_get, get_stable over all histories) + model/impl step correspondence + read-back oracle"),
  ('C02', "Theorems (Props/C02.v): observational frame for every operation accepted or refused (incl. directory growth); allocation only hands out free, in-range, distinct units; ownership stays pairwise disjoint under every history.", "Coq proof (frame, pick_sound, WF_history) + model/impl step correspondence + bystander oracle"),
  ('C03', "Theorems (Props/C03.v): the ownership invariant WF (no unit owned twice, none a system unit, all in range and marked used, used = system + owned) holds initially and is preserved by every operation, hence in every reachable state; impl side: five independent fsck readers check the same conditions plus chain termination and header counters on the real image after every step.", "Coq invariant proof by induction over histories + independent fsck readers on the implementation"),
  ('C04', "Theorems (Props/C04.v): reported free = units neither system nor owned in every reachable state (no leak); put then delete restores the allocation map exactly; a file whose requirement incl. index overhead fits is accepted (first-free file systems). Exact-fit histories (free = need, need+1 at every index boundary) run through model and implementation.", "Coq proof (free_exact, put_delete_restores, accept) + exact-fit correspondence + accept/leak oracles"),
  ('C05', "Theorems (Props/C05.v): listing changes exactly as the history says (put adds, delete removes, rename moves, refused changes nothing), duplicates and rename-onto-existing are refused, names stay unique in every reachable state.", "Coq proof (refinement lemmas, names_unique) + listing correspondence + tree/catalog/fsck listing oracle"),
  ('C19', "Theorems (Props/C19.v): a locked file refuses delete/rename/put, lock then unlock restores the entry, changing protection touches no other path. Impl side: lock-heavy histories on all file systems (DOS lock bit, ProDOS access, CP/M and FAT read-only).", "Coq proof (locked_blocks, lock_unlock, lock_frame) + lock-heavy histories correspondence + protection oracle"),
]:
    CLAIMS[pid] = dict(text=text + FS_NOTE, technique=tech, design_ref='DESIGN.md section 5 (file-system block)')
CLAIMS['C06'] = dict(
   text="Theorems (Props/C06.v): every compressed/encoded on-disk form decodes to the in-memory content (IMD run compression, TD0 sector packing, 6&2 / 5&3 nibble streams), and what a user observes of a volume is determined by directory + allocation map alone. Impl side: after every 4th step and at the end of each history the image is serialised, reloaded with and without the extension hint, and file system, free space, tree (with metadata) and every file are compared; second serialisation must be byte-identical (buffers flushed)." + FS_NOTE,
   technique="Coq proof (codec round trips, observation determinacy) + reload oracle on every container + model/impl step correspondence",
   design_ref='DESIGN.md section 5 C06')
CLAIMS['C09'] = dict(
   text="Theorems (Props/C09.v): the CRC-32 table regenerated from woz.rs equals the reflected polynomial table entry by entry; TD0 sector pack/unpack and IMD track compress/expand are exact inverses for every content and size; the 2MG offsets/lengths written by to_bytes address exactly data, comment and creator. Tie: crc32, crc16 and the IMD track record as serialised must equal the extracted model; impl-side codec oracle on every container: to_bytes -> from_bytes -> to_bytes fixpoint, type/geometry/capacity/kind, every sector, metadata written through put_metadata read back before and after reload (incl. newline and 0x1A values), WOZ CRC32 and 2MG offsets recomputed independently. WOZ/TD0 whole-file parsers are covered by the oracle only (LZHUF is an external crate).",
   technique="Coq proof (CRC table, TD0/IMD codecs, 2MG offsets) + extracted-model correspondence + serialise/reload fixpoint oracle",
   design_ref='DESIGN.md section 5 C09')
CLAIMS['C13'] = dict(
   text="Theorems (Props/C13.v): sequence(desequence n d) = d for every byte string and positive chunk length, chunk sizes are exact; the DOS 3.x binary and token headers are exact inverse pairs under the 16-bit guards and packing is refused (error) outside them. Tie: desequence chunking and the DOS headers (incl. 65535/65536-byte inputs) must equal the extracted model. Impl-side oracle: every packer (DOS 3.x, ProDOS, Pascal, CP/M, FAT) x raw/bin/tok/txt/records/JSON round trips over boundary lengths, every load-address class, non-ASCII text, sparse chunk maps, plus a systematic sweep of text sizes around every 256/512/1024 boundary. ProDOS/Pascal/CP-M/FAT converters are covered by the oracle only.",
   technique="Coq proof (chunking, DOS headers, refusal guards) + extracted-model correspondence + packer round-trip oracle with boundary sweeps",
   design_ref='DESIGN.md section 5 C13')
CLAIMS['C12'] = dict(
   text="Theorems (Props/C12.v) on panic- and fuel-explicit transcriptions: the WOZ chunk walk terminates without panic on every byte string (each step advances >= 8 bytes), TD0 sector unpack and the IMD track-record parser and the DOS binary/token unpackers return data or an error for EVERY input and never exhaust their fuel. Tie: outcome class and values of get_next_chunk, Imd::from_bytes on track records, unpack_bin must equal the extracted model on structured malformed inputs. Impl-side search (catch_unwind + 8 s watchdog + per-case process on crash): truncations, single-field and multi-field corruptions, extensions and splices of valid images of every container x file system, random bytes under every extension, corrupted token streams into the three detokenizers and the disassembler, corrupted FileImage/Records JSON, arbitrary metadata key paths; mount, stat, catalog, tree, glob, get of listed files. File-system directory walks are covered by the search only.",
   technique="Coq totality proofs on panic-explicit parser models + outcome-class correspondence + malformed-input search with watchdog",
   design_ref='DESIGN.md section 5 C12')
CLAIMS['C10'] = dict(
   text="Theorem (Props/C10.v) over the WHOLE finite cross product of the CLI value lists (7 OS x 23 kinds x 10 image types x 4 wrap options, all regenerated from cli.rs / img/mod.rs / names.rs / mkdsk.rs / dot2mg.rs / dpb.rs / bpb.rs): every tuple the decision model accepts has the parameters its file system needs (DPB, BPB, 13/16-sector capacity, block count). Tie and search are exhaustive: the real binary is run on every one of the 6440 tuples; accept/refuse must equal the model's decision; every accepted file is reopened (file system, empty tree, free space vs capacity, geometry) and must take and return a first file; every refusal must be an error return (no panic, no signal) that leaves no file. Volume names/numbers at the edges of their ranges, the boot flag and a missing volume are exercised on representative tuples.",
   technique="Coq proof by exhaustive evaluation over the generated product + exhaustive run of the real CLI (translation-validated decision table)",
   design_ref='DESIGN.md section 5 C10')
CLAIMS['C11'] = dict(
   text="Theorems (Props/C11.v): for every handler path in which nothing fallible follows the image write and every choice of the failing step, a non-zero exit means no write completed; every image-writing call site of main.rs / lib.rs / commands/*.rs (list regenerated from the sources on every run) is in tail position; the seven read-only handlers contain no file-writing call. Impl side: the real binary is run on populated images of every file system and several containers with ~27 failing invocations each (bad arguments, unknown paths, duplicates, disk full, malformed stdin for every item type, block/sector range errors, metadata errors), mput batches whose n-th element fails, and every read-only command; sha256 of the image before and after. Atomicity of the final write itself is OS behaviour and outside the claim.",
   technique="Coq proof over the generated write-site list + semantic write-last lemma + real-binary hash oracle",
   design_ref='DESIGN.md section 5 C11')
CLAIMS['C20'] = dict(
   text="Theorems (Props/C20.v): an output rendered from sorted keys is identical for every permutation of the entries; a map built by inserting distinct keys is independent of insertion order; every hash-container iteration site found in the sources (list regenerated on every run) is classified and none emits in iteration order. Impl side: the same history is built from scratch, and every query / language operation repeated, in fresh processes (fresh hash seeds) under a fixed wall clock (LD_PRELOAD shim, no change to a2kit) and compared byte for byte: image bytes, catalog, tree, stat, geometry, glob, get (any/txt/rec/meta/block), mget, tokenize, detokenize, minify, renumber, verify, asm, dasm, pack. Language-server outputs are outside the property's list and not compared.",
   technique="Coq proof (order-independence lemmas, generated site classification) + repeated fresh-process byte comparison with fixed clock",
   design_ref='DESIGN.md section 5 C20')
CLAIMS['C14'] = dict(
   text="Theorems (Props/C14.v), each for all inputs: the Applesoft container (links = address of the following line for every load address and program below 64K, 00 00 end marker) and the Integer container (exact length bytes, 01 terminators) are walked back into the same lines; the escape codec shared by strings, REM and DATA is inverted by the tokenizer-side parser for every payload in every context (Applesoft and Integer, incl. literal backslash-x sequences, controls, high and lower-case negative bytes); the Merlin negative-ASCII/column-separator line encoding decodes to the same columns; the token tables regenerated from token_maps.rs on every run list the same bytes once each way (Applesoft exactly 128..234, Integer positive and never 01) and the constants the escape model uses are the ones in the source. Tie: escape/unescape/Merlin encode/decode outputs of the real functions must equal the extracted model on generated byte strings; every token stream the real tokenizers emit is re-assembled byte for byte by the model (so it lies in the image the theorems speak about) and its links close. PARTIAL: which statement becomes which token goes through the tree-sitter grammars (generated C), not modelled; that composition is covered by the implementation-side oracle only: verify_str -> tokenize -> detokenize -> verify_str -> tokenize over grammar-directed programs (all statements, spacing/case variants, escape-stress stream, boundary load addresses and line numbers), compared modulo the blanks after REM/DATA tokens.",
   technique="Coq proof (container structure, escape codec round trip, Merlin byte codec, generated token tables) + extracted-model correspondence + round-trip oracle over generated programs",
   design_ref='DESIGN.md section 5 C14')
CLAIMS['C15'] = dict(
   text="Theorems (Props/C15.v) over the opcode tables regenerated from opcodes.json and the mode maps of operations.rs on every run: for every opcode, processor, register-width setting, assembler variant that goes with it, origin and operand VALUE (unbounded statement; the assembler's choice is shown to depend on the value only through the number of bytes it needs, which reduces the proof to a finite sweep re-run on every check), the instruction the disassembler lists is assembled back to exactly the original bytes - hence never different bytes, and success for valid instructions; block moves and operand-less instructions likewise; rel_to_abs/abs_to_rel are inverse for every pc; the opcode map is a function (only jmp/jml, jsr/jsl share codes); the lines of a disassembly tile the input exactly for every byte string (try_data_run never reaches past the range). Tie: the real disassembly text must equal the model's decisions rendered as text on generated byte strings; single source lines (incl. operand shapes the disassembler never writes) assemble to the model's bytes or are refused alike. PARTIAL: the text between the two tools (hex formatting, labels, columns, tree-sitter parse, expression evaluation) and the contents of data pseudo-ops are not modelled; covered by the oracle on the real pipeline dasm -> analyze -> spot_assemble: all 256 opcodes x operand classes x origins (bank edges, branch limits) x 4 processors x MX x variants, data runs of every recognised pattern, LUP blocks checked through an independent expansion.",
   technique="Coq proof (instruction round trip for all operand values via width-class sweep, relative conversion, tiling) over generated opcode tables + text/IR correspondence + real-pipeline oracle sweep",
   design_ref='DESIGN.md section 5 C15')
CLAIMS['C16'] = dict(
   text="Theorems (Props/C16.v), for every program (rows), selection and (first, step, move, bound) tuple: an accepted request maps the selected numbers in ascending order to first, first+step, ... within the upper bound; no new number collides with or falls between lines that keep theirs (duplicate / interleave refusal); without permission to move the block stays in place; replacements applied bottom-up from the right equal the simultaneous substitution of every range with all other text in place, whatever the new lengths. Tie: the decision model (refusal, new numbers by row, insert position) must equal Renumberer::renumber on generated requests; apply_edits must equal the model on generated edit lists. PARTIAL: where the line-number nodes are comes from the tree-sitter walk (not modelled); covered by the oracle, which builds Applesoft/Integer programs whose every definition and reference position is known to the generator and requires the exact expected text (all references retargeted, spacing and everything else unchanged, CRLF and blank lines kept) or a refusal exactly when the request would duplicate, exceed the bound, interleave, select nothing, or need a move that was not allowed.",
   technique="Coq proof (mapping arithmetic, collision/interleave refusal, bottom-up edit application = substitution) + decision/apply_edits correspondence + exact-text oracle from generator structure",
   design_ref='DESIGN.md section 5 C16')
CLAIMS['C17'] = dict(
   text="Theorems (Props/C17.v) over the keyword list and guard table regenerated from token_maps.rs / minify_guards.rs on every run: when the computed guard reports no hazard the machine (greedy keyword recognition from the left) reads the shortened name character by character and then reads what follows exactly as on its own, for EVERY following text - no reserved word is created; every reported hazard is real; the old guard table is covered by the computation; every deleted line is mapped to a line that still exists after the deletions, lies after it and is the first kept line from the cursor on (trailing deleted lines are kept). Tie: guard decisions observed on name+follower lines and the reference retargeting observed on REM/GOTO programs must equal the extracted model; the shape of forms_hidden_token/needs_guard is checked textually by the translator. PARTIAL: which nodes are variables, references or REM-only lines comes from the tree-sitter walk, and line combining is not modelled; covered by the oracle: for every generated program (variable names of every accepted shape incl. ones beginning like keywords, REM-only branch targets in every position, trailing strings, PRINT separators, juxtaposed PRINT items) and levels 1-3 the output must verify, tokenize, not grow, and reduce to the same canonical statement sequence (strings and DATA byte for byte, variables under the two-character rule, keyword tokens identical) with every reference pointing at the same statement.",
   technique="Coq proof (hidden-token guard soundness for all following texts, table coverage, reference map) over generated keyword/guard tables + guard/refmap correspondence + statement-sequence oracle",
   design_ref='DESIGN.md section 5 C17')
CLAIMS['C18'] = dict(
   text="Theorems (Props/C18.v) for EVERY schedule - any interleaving of client notifications, analysis threads finishing in any order or dying, and main-loop passes: published diagnostics are a subsequence of what was sent, in the order sent; when no thread dies nothing is lost, so once the queue has drained the last publish for a document is for its last version; after a thread has died holding the analyzer lock nothing is ever published again (the hazard the property names is real in the model). Tie: the translator reads off the three main loops and handlers that only the front handle is harvested, handles are pushed at the back, and analyze + get_diags happen under one lock acquisition with the document's own version (Gen/ServerSites.v, re-proved each run). PARTIAL: what an analysis computes and the stdio transport are not modelled. Impl side: the real server binaries (built with the guarded delay hooks, cfg a2kit_verif) are driven over LSP with generated open/change histories on 1-3 documents incl. syntactically broken and degenerate texts, with per-version delays before and inside the lock that force out-of-order completion; checked: versions per document strictly increasing in arrival order, last publish = last version sent, its diagnostics = those of a fresh server given only the final texts, the server still answers a request afterwards.",
   technique="Coq proof over all schedules of the queue/lock state machine + translator tie to the three main loops + real-binary LSP oracle with forced reordering (guarded hooks)",
   design_ref='DESIGN.md section 5 C18')
PLANNED = {f'C{i:02d}': 'check not built yet in this round (planned; see DESIGN.md section 10)' for i in range(1, 21)}

def main():
    checks = []
    for pid, c in sorted(CLAIMS.items()):
        checks.append({
            'property_id': pid,
            'quick_cmd': f'./check {pid} --tier quick',
            'thorough_cmd': f'./check {pid} --tier thorough',
            'evidence_file': f'/verif/evidence/{pid}.json',
            'replay_cmd_template': f'./check {pid} --replay {{path}}',
            'engine': 'coq-proof',
            'level_claimed': {'category': 'proof', 'text': c['text'], 'design_ref': c['design_ref']},
            'level_note': NOTE,
            'technique': c['technique'],
        })
    m = {
        'version': 1,
        'setup_cmd': './setup.sh',
        'hooks': {'guard': 'a2kit_verif', 'enable': 'RUSTFLAGS="--cfg a2kit_verif" (harness/ and the CLI binaries are built with it by setup.sh and by every check)',
                  'baseline_off_cmd': 'cd /repo && cargo nextest run --workspace --no-fail-fast --tool-config-file pb:/w/lib/nextest.toml --profile pb --test-threads 8 --offline || cargo test --workspace --no-fail-fast --offline',
                  'source_commits': json.load(open(os.path.join(V, 'lib', 'hook_commits.json'))) if os.path.exists(os.path.join(V, 'lib', 'hook_commits.json')) else [],
                  'add_only': True},
        'engines': [{'name': 'coq-proof', 'path': '/verif/check', 'serves_properties': sorted(CLAIMS),
                     'kind_free_text': 'Coq 8.16 development (coq/theories) + Python translator (Gen/*.v from Rust sources) + OCaml-extracted model vs Rust harness correspondence + implementation-side oracles'}],
        'checks': checks,
        'notes': 'See DESIGN.md. Known findings / fixed defects: known-findings.txt.',
        'not_applicable': [{'property_id': p, 'reason': r} for p, r in sorted(PLANNED.items()) if p not in CLAIMS],
    }
    json.dump(m, open(os.path.join(V, 'MANIFEST.json'), 'w'), indent=1)

if __name__ == '__main__':
    main()
