"""Generators of machine code and data for C15, driven by /repo's opcodes.json (read at run time)."""
import json, os

REPO = os.environ.get('A2KIT_REPO', '/repo')
MODE_BYTES = {'impl': 0, 'accum': 0, 's': 0, 'imm': 1, 'imm_zp': 1, 'imm_abs': 2, 'abs': 2, 'zp': 1, 'rel': 1, 'rell': 2, 'absl': 3,
              '(zp,x)': 1, '(abs,x)': 2, '(zp),y': 1, 'zp,x': 1, 'abs,x': 2, 'absl,x': 3, 'zp,y': 1, 'abs,y': 2, '(abs)': 2, '(zp)': 1,
              '[d]': 1, '[d],y': 1, 'd,s': 1, '(d,s),y': 1, 'xyc': 2}
M_STATUS = ["adc", "and", "bit", "cmp", "eor", "lda", "ora", "sbc"]
X_STATUS = ["cpx", "cpy", "ldx", "ldy"]
PROC_KEY = {'6502': '6502', '65c02': '65c02', '65802': '65c816', '65816': '65c816'}


def table():
    d = json.load(open(os.path.join(REPO, 'src/lang/merlin/handbook/opcodes.json')))
    t = {}
    for mn, info in d.items():
        for md in info['modes']:
            code = md['code']
            # the disassembler prefers jml/jsl over jmp/jsr for the shared opcodes; for generation any entry will do
            t.setdefault(code, (mn, md['addr_mnemonic'], md['processors']))
    return t


def operand_bytes(mn, mode, mx):
    n = MODE_BYTES[mode]
    if mode == 'imm' and ((mn in M_STATUS and mx[0] == '0') or (mn in X_STATUS and mx[1] == '0')):
        n += 1
    return n


VALUE_CLASSES = {1: [0, 1, 0x7f, 0x80, 0xfe, 0xff], 2: [0, 1, 0xff, 0x100, 0x7fff, 0x8000, 0xffff, 0x00ff, 0x0100], 3: [0, 0xff, 0x100, 0xffff, 0x10000, 0x010000, 0xffffff, 0x7f0000, 0x00ff00, 0x0000ff, 0x012345]}


def instr(rng, tab, proc, mx, codes=None):
    ok = [c for c, (mn, mode, procs) in tab.items() if PROC_KEY[proc] in procs and c != 0]
    c = rng.choice(codes or ok)
    mn, mode, procs = tab[c]
    n = operand_bytes(mn, mode, mx if proc in ('65802', '65816') else '11')     # only the 16 bit processors have M and X
    if n == 0:
        return bytes([c])
    v = rng.choice(VALUE_CLASSES[n]) if rng.random() < 0.6 else rng.randrange(1 << (8 * n))
    return bytes([c]) + v.to_bytes(n, 'little')


def code_stream(rng, tab, proc, mx, n):
    return b''.join(instr(rng, tab, proc, mx) for _ in range(n))


def data_run(rng):
    k = rng.random()
    if k < 0.2:
        s = ''.join(rng.choice('ABCDEFGHIJKLMNOPQRSTUVWXYZabcdefghij0123456789 .,') for _ in range(rng.randrange(1, 30)))
        b = s.encode()
        if rng.random() < 0.5:
            b = bytes(x | 0x80 for x in b)
        return b + rng.choice([b'', b'\x00', bytes([rng.randrange(256)])])
    if k < 0.4:
        # runs up to and beyond one page: the repeat count of the line that stands for them needs more than one byte
        n = rng.randrange(2, 40) if rng.random() < 0.85 else rng.choice([255, 256, 257, 300, 511, 512, 513, 1000, 4095, 4096])
        return bytes([rng.randrange(256) if rng.random() < 0.6 else rng.choice([0, 0xff, 3])]) * n
    if k < 0.55:
        return bytes([rng.randrange(256), rng.randrange(256)]) * rng.randrange(2, 12) + rng.choice([b'', bytes([rng.randrange(256)])])
    if k < 0.7:
        return bytes(rng.randrange(256) for _ in range(4)) * rng.randrange(2, 8) + bytes(rng.randrange(256) for _ in range(rng.randrange(0, 4)))
    if k < 0.8:
        q = rng.choice(["'", '"', '&', '/'])
        s = (q + ''.join(rng.choice('ABC \'"&/,.') for _ in range(rng.randrange(1, 10)))).encode()
        return bytes(x | 0x80 for x in s) if rng.random() < 0.5 else s
    return bytes(rng.randrange(256) for _ in range(rng.randrange(1, 12)))
