"""C05 -- file-system property; see fscommon.py and coq/theories/Props/C05.v"""
import fscommon

def run(ctx, model_ok=True):
    fscommon.standard_run(ctx, 'C05', opts='k', lock_heavy=False, model_ok=model_ok)

def replay(ctx, rp):
    fscommon.replay(ctx, 'C05', rp)
