"""C16: structured BASIC programs with known definition/reference positions, and the expected result of a renumber request
computed from that structure alone (no parser): the independent oracle of the property."""
import langgen

MAXNUM = {'applesoft': 63999, 'integer': 32767}


def program(rng, lang, nlines=None, crlf=False, blanks=False):
    langgen.MARK[0] = True
    try:
        if lang == 'applesoft':
            t = langgen.applesoft_program(rng, nlines=nlines, rem_data=rng.random() < 0.7)
        else:
            t = langgen.integer_program(rng, nlines=nlines)
    finally:
        langgen.MARK[0] = False
    lines = t.split('\n')[:-1]
    # comments are not limited to ASCII (the positions the edits use are then no longer the character counts)
    if rng.random() < 0.25:
        k = rng.randrange(len(lines))
        if 'REM' in lines[k] and '"' not in lines[k]:
            lines[k] = lines[k] + rng.choice([' \u00e9', ' \u00fc\u00e9', '\u20ac x'])
    if blanks:
        out = []
        for l in lines:
            out.append(l)
            if rng.random() < 0.2:
                out.append(rng.choice(['', '  ']))
        lines = out
    return lines       # marked lines (one def per non-blank line)


def render(lines, sep):
    if sep == 'mix':
        # both endings in one text, the first line CRLF and the last LF (or the other way round when there are two lines or more)
        seps = ['\r\n' if (i * 7 + len(l)) % 3 else '\n' for i, l in enumerate(lines)]
        if lines:
            seps[0] = '\r\n'
            seps[-1] = '\n' if len(lines) > 1 else '\r\n'
        src, _ = langgen.split_marks(''.join(l + e for l, e in zip(lines, seps)))
        return src
    src, _ = langgen.split_marks(sep.join(lines) + sep)
    return src


def expected(lines, lang, beg, end, first, step, reorder, sep):
    """-> ('ok', text) or ('refused', reason).  Lines are the marked lines of a program whose numbers ascend."""
    defs = []
    for row, l in enumerate(lines):
        _, m = langgen.split_marks(l)
        d = [x for x in m if x[0] == 'def']
        if d:
            defs.append((row, d[0][3]))
    sel = [(r, n) for r, n in defs if beg <= n < end]
    if not sel:
        return ('refused', 'nothing selected')
    if step < 1:
        return ('refused', 'step')
    new = {n: first + i * step for i, (_, n) in enumerate(sel)}
    last = first + step * (len(sel) - 1)
    if first > MAXNUM[lang] or last > MAXNUM[lang] or step > MAXNUM[lang]:
        return ('refused', 'upper bound')
    unsel = [n for r, n in defs if not (beg <= n < end)]
    if any(first <= n <= last for n in unsel):
        return ('refused', 'interleave or duplicate')
    # new text of every line: defs and refs mapped, all else unchanged
    def subst(l):
        out = []
        i = 0
        while i < len(l):
            ch = l[i]
            if ch in '\x01\x03':
                j = l.index('\x02' if ch == '\x01' else '\x04', i)
                n = int(l[i + 1:j])
                out.append(str(new.get(n, n)))
                i = j + 1
            else:
                out.append(ch)
                i += 1
        return ''.join(out)
    newlines = [subst(l) for l in lines]
    # order: the selected rows form a contiguous block (numbers ascend); where does it belong?
    rows_sel = [r for r, _ in sel]
    lo, hi = min(rows_sel), max(rows_sel)
    before = [n for r, n in defs if r < lo]
    after = [n for r, n in defs if r > hi]
    in_place = all(n < first for n in before) and all(n > last for n in after)
    if in_place:
        return ('ok', sep.join(newlines) + sep)
    if not reorder:
        return ('refused', 'would require a move')
    return ('moved', newlines, lo, hi, first)
