"""C03 -- file-system property; see fscommon.py and coq/theories/Props/C03.v"""
import fscommon

def run(ctx, model_ok=True):
    fscommon.standard_run(ctx, 'C03', opts='k', lock_heavy=False, model_ok=model_ok)

def replay(ctx, rp):
    fscommon.replay(ctx, 'C03', rp)
