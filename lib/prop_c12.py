"""C12 -- malformed input yields an error, never a crash or hang."""
import framework as fw
from framework import hexs

PAIRS = [('dos33', 'do:5.25in'), ('dos33', 'woz2:5.25in'), ('dos33', 'nib:5.25in'), ('dos32', 'd13:5.25in-13'), ('dos33', 'woz1:5.25in'), ('prodos', 'po:5.25in'),
         ('prodos', '2mg-do:5.25in'), ('prodos', 'woz2:3.5in-ss'), ('pascal', 'po:5.25in'), ('cpm2', 'do:5.25in'), ('cpm2', 'imd:5.25in-osb-sd'), ('cpm3', 'td0:5.25in-kayii'),
         ('fat', 'img:5.25in-ibm-ssdd9'), ('fat', 'imd:5.25in-ibm-dsdd9'), ('fat', 'td0:5.25in-ibm-dsdd9'), ('cpm2', 'imd:8in'), ('prodos', 'do:5.25in'), ('fat', 'img:3.5in-ibm-720')]
META = ['woz2:5.25in', 'woz1:5.25in', '2mg-do:5.25in', 'imd:8in', 'td0:8in', 'nib:5.25in', 'do:5.25in']

FAT_REGIONS = [(0, 64), (512, 16)]
FIELD_SWEEPS = [('fat', 'img:5.25in-ibm-ssdd8', FAT_REGIONS), ('fat', 'img:5.25in-ibm-ssdd9', FAT_REGIONS), ('fat', 'img:5.25in-ibm-dsdd8', FAT_REGIONS),
                ('fat', 'img:5.25in-ibm-dsdd9', FAT_REGIONS + [(5 * 512, 160)]), ('fat', 'img:3.5in-ibm-720', FAT_REGIONS), ('fat', 'img:3.5in-ibm-1440', FAT_REGIONS),
                ('prodos', 'po:5.25in', [(1024, 96), (6 * 512, 16)]), ('pascal', 'po:5.25in', [(1024, 160)]),
                # chunk headers of a WOZ2 file (INFO, TMAP, TRKS: identifier and size)
                ('dos33', 'woz2:5.25in', [(12, 8), (80, 8), (248, 8)]), ('prodos', 'woz2:3.5in-ss', [(248, 8)]),
                ('dos33', 'do:5.25in', [(17 * 4096, 64), (17 * 4096 + 15 * 256, 48)]), ('cpm2', 'do:5.25in', [(3 * 4096, 64)])]

MORE_SWEEPS = [('prodos', 'po:3.5in-ss', [(1024, 2048)]), ('prodos', 'po:5.25in', [(1024, 2048), (6 * 512, 64)]), ('pascal', 'po:5.25in', [(1024, 2048)]),
               ('dos32', 'd13:5.25in-13', [(17 * 13 * 256, 256), (17 * 13 * 256 + 12 * 256, 256)]), ('dos33', 'do:5.25in', [(17 * 4096, 256), (17 * 4096 + 15 * 256, 256)]),
               ('cpm2', 'do:5.25in', [(3 * 4096, 1024)]), ('cpm3', 'do:5.25in', [(3 * 4096, 512)]), ('fat', 'img:5.25in-ibm-dsdd9', [(512, 64), (5 * 512, 512)]),
               ('fat', 'img:3.5in-ibm-1440', [(512, 64), (19 * 512, 256)]), ('fat', 'img:5.25in-ibm-ssdd8', [(512, 64), (3 * 512, 256)]),
               # container headers and track tables
               ('dos33', 'woz2:5.25in', [(0, 1600)]), ('dos33', 'woz1:5.25in', [(0, 256)]), ('prodos', 'woz2:3.5in-ss', [(0, 1600)]), ('prodos', '2mg-do:5.25in', [(0, 64)]),
               ('prodos', '2mg-po:3.5in-ss', [(0, 64)]), ('cpm2', 'imd:8in', [(0, 400)]), ('cpm2', 'td0:8in', [(0, 400)]), ('fat', 'imd:5.25in-ibm-dsdd9', [(0, 300)]),
               ('fat', 'td0:5.25in-ibm-dsdd9', [(0, 300)]), ('cpm3', 'td0:5.25in-kayii', [(0, 300)]), ('cpm2', 'imd:5.25in-osb-sd', [(0, 300)]), ('dos32', 'd13:5.25in-13', [(0, 256)]),
               ('pascal', 'po:5.25in', [(0, 1024), (3072, 1024)]), ('prodos', 'po:5.25in', [(3072, 512)]), ('cpm2', 'do:5.25in', [(0, 512)])]

def le32(v):
    return bytes([v & 255, (v >> 8) & 255, (v >> 16) & 255, (v >> 24) & 255])

def gen_pieces(ctx, n):
    rng = ctx.rng
    lines = []
    ids = [1330007625, 1346456916, 1397445204, 1414091351, 1096041805, 0, 0x12345678]
    for i in range(n):
        # chunk sequences with sizes at and around what fits
        buf = bytearray(rng.randrange(256) for _ in range(12))
        for _ in range(rng.randrange(0, 4)):
            size = rng.choice([0, 1, 8, 60, 160, 200])
            buf += le32(rng.choice(ids)) + le32(rng.choice([size, size, size + 1, 0xffffffff, 100000]))
            buf += bytes(rng.randrange(256) for _ in range(size))
        if rng.random() < 0.4:
            buf = buf[:rng.randrange(len(buf) + 1)]
        ptr = rng.choice([12, 12, 0, 5, len(buf), max(0, len(buf) - 8), rng.randrange(len(buf) + 9)])
        lines.append(f"wozchunk w{i} {ptr} {hexs(bytes(buf))}")
    for i in range(n):
        shift = rng.choice([0, 1, 2, 3, 6, 7, 255, 1])
        size = 128 << min(shift, 3)
        nsec = rng.choice([0, 1, 2, 3, 5])
        head = rng.choice([0, 1, 0x80, 0x40, 0xc1])
        rec = bytearray([rng.randrange(6), rng.randrange(80), head, nsec, shift])
        rec += bytes(range(1, nsec + 1)) * (1 + (1 if head & 0x80 else 0) + (1 if head & 0x40 else 0))
        for s in range(nsec):
            code = rng.choice([0, 1, 2, 1, 2, 3, 8, 9, 255])
            rec.append(code)
            if code in (1, 3, 5, 7):
                rec += bytes(rng.randrange(256) for _ in range(size))
            elif code in (2, 4, 6, 8):
                rec.append(rng.randrange(256))
        r = rng.random()
        if r < 0.3:
            rec = rec[:rng.randrange(len(rec) + 1)]
        elif r < 0.4:
            rec += bytes(rng.randrange(256) for _ in range(rng.randrange(1, 9)))
        lines.append(f"imdparse p{i} {hexs(bytes(rec))}")
    for i in range(n):
        m = rng.choice([0, 1, 3, 4, 5, 20, 300])
        b = bytearray(rng.randrange(256) for _ in range(m))
        if m >= 4 and rng.random() < 0.6:
            ln = rng.choice([0, 1, m - 4, m - 3, m - 5 if m > 5 else 0, 65535])
            b[2] = ln & 255
            b[3] = (ln >> 8) & 255
        lines.append(f"dosunbin u{i} {hexs(bytes(b))}")
    return lines

def run(ctx, model_ok=True):
    rng = ctx.rng
    quick = ctx.tier == 'quick'
    pieces = gen_pieces(ctx, 60 if quick else 600)
    if model_ok:
        impl, _ = fw.correspond(ctx, 'malformed-pieces (get_next_chunk, IMD track records, DOS binary header: outcome of Sys/Parsers.v = implementation)', pieces)
    else:
        impl = fw.run_lines(fw.HARNESS_BIN, pieces)
    # a panic or crash of the implementation on a malformed piece is the property failing, whatever the model says
    for ln in pieces:
        o = impl.get(ln.split()[1])
        if o is None or o.startswith('PANIC') or o.startswith('CRASH'):
            ctx.failures.append({'cls': f"panic:piece:{ln.split()[0]}", 'case': ln[:1500], 'detail': (o or 'NO-OUTPUT')[:400]})
    n = 10 if quick else 120
    lines = []
    k = 0
    for fs, lab in PAIRS:
        for _ in range(n):
            lines.append(f"malform m{k} image {rng.randrange(1 << 30)} {fs} {lab}"); k += 1
    for _ in range(n * 3):
        lines.append(f"malform m{k} random {rng.randrange(1 << 30)}"); k += 1
    for lang in ['applesoft', 'integer', 'merlin', 'dasm']:
        for _ in range(n * 3):
            lines.append(f"malform m{k} tokens {rng.randrange(1 << 30)} {lang}"); k += 1
    for _ in range(n * 4):
        lines.append(f"malform m{k} json {rng.randrange(1 << 30)}"); k += 1
    for lab in META:
        for _ in range(n):
            lines.append(f"malform m{k} meta {rng.randrange(1 << 30)} {lab}"); k += 1
    # single-field sweeps over the key structures of raw images (boot sector / BPB, FAT, volume headers, VTOC, directories)
    for fs, lab, regions in FIELD_SWEEPS + ([] if quick else MORE_SWEEPS):
        for base, span in regions + ([] if quick or lab.split(':')[0] not in ('img', 'do', 'po') else [(0, 2048)]):
            for b in range(base, base + span, 16):
                lines.append(f"malform m{k} fields {rng.randrange(1 << 30)} {fs} {lab} {b} {min(16, base + span - b)}"); k += 1
    for lang in ['applesoft', 'integer', 'merlin']:
        lines.append(f"malform m{k} tokfields 0 {lang}"); k += 1
    for fs in ['dos3x', 'prodos', 'pascal', 'cpm', 'fat']:
        for _ in range(1 if quick else 8):
            lines.append(f"malform m{k} unpack {rng.randrange(1 << 30)} {fs}"); k += 1
    # IMD track records with the optional cylinder and head maps (a2kit writes none or one of them): whole and truncated everywhere
    for fs, lab in [('cpm2', 'imd:8in'), ('fat', 'imd:5.25in-ibm-dsdd9'), ('cpm2', 'imd:5.25in-kay4')][:(2 if quick else 3)]:
        lines.append(f"malform m{k} imdmaps {rng.randrange(1 << 30)} {fs} {lab}"); k += 1
    for fs in ['dos3x', 'prodos', 'pascal', 'cpm', 'fat']:
        lines.append(f"malform m{k} jsonfields 0 {fs}"); k += 1
    for proc in range(4):
        for mx in range(4):
            lines.append(f"dasmsweep s{k} {proc} {mx} {[0, 768, 65280][(proc + mx) % 3]}"); k += 1
    import os
    corpus = os.path.join(fw.VERIF, 'corpus', 'C12.cases')
    if os.path.exists(corpus):
        lines = [l.strip() for l in open(corpus) if l.strip() and not l.startswith('#')] + lines
    out = fw.run_lines(fw.HARNESS_BIN, lines, timeout=1400)
    kinds = {}
    for ln in lines:
        t = ln.split()
        o = out.get(t[1])
        ctx.evaluations += 1
        if o is None or not o.startswith('ok'):
            what = (t[2] + (':' + t[4] if len(t) > 4 else '') + (':' + t[5] if t[2] == 'fields' else '')) if t[0] == 'malform' else t[0]
            cls = ('crash:' if (o or 'CRASH').startswith('CRASH') or o is None else 'hang:' if 'hang' in (o or '')[:12] else 'panic:') + what
            ctx.failures.append({'cls': cls, 'case': ln, 'detail': (o or 'NO-OUTPUT')[:500]})
        else:
            kk = o.split()[1] if len(o.split()) > 1 else 'ok'
            kinds[kk] = kinds.get(kk, 0) + 1
            ctx.nontrivial.add(ln)
    ctx.samples += [pieces[0][:120], lines[-1] + ' -> ' + str(out.get(lines[-1].split()[1]))[:160]]
    ctx.distribution = {'rule': 'distinct case lines (artefact kind, seed => mutation); non-trivial = the consumer ran to a verdict', 'piece_cases': len(pieces),
                        'malformed_cases': len(lines), 'outcomes': kinds}

def replay(ctx, rp):
    f = rp.get('failure')
    if f:
        out = fw.run_lines(fw.HARNESS_BIN, [f['case']])
        o = out.get(f['case'].split()[1])
        print('replay:', f['case'], '->', o)
        if o is None or not o.startswith('ok'):
            ctx.failures.append({'cls': f['cls'], 'case': f['case'], 'detail': (o or '')[:500]})
    else:
        run(ctx)
