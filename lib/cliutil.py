"""helpers to drive the real a2kit binary"""
import os, subprocess, hashlib, json
import framework as fw

def a2kit():
    return os.path.join(fw.BINS_DIR, 'a2kit')

def run(args, stdin=None, timeout=120, env=None):  # noqa
    e = dict(os.environ)
    if env:
        e.update(env)
    try:
        r = subprocess.run([a2kit()] + args, input=stdin, capture_output=True, timeout=timeout, env=e)
        return r.returncode, r.stdout, r.stderr
    except subprocess.TimeoutExpired:
        return 124, b'', b'TIMEOUT'

def sha(p):
    return hashlib.sha256(open(p, 'rb').read()).hexdigest() if os.path.exists(p) else None

IMAGES = [  # (os, kind, type, wrap, volume, ext, a valid file name, a second name, dir support)
    ('dos33', '5.25in', 'do', None, '254', 'do', 'HELLO', 'WORLD', False),
    ('dos33', '5.25in', 'woz2', None, '254', 'woz', 'HELLO', 'WORLD', False),
    ('dos32', '5.25in', 'd13', None, '254', 'd13', 'HELLO', 'WORLD', False),
    ('prodos', '5.25in', 'po', None, 'VOL', 'po', 'HELLO', 'WORLD', True),
    ('prodos', '5.25in', '2mg', 'do', 'VOL', '2mg', 'HELLO', 'WORLD', True),
    ('prodos', '3.5in', 'woz2', None, 'VOL', 'woz', 'HELLO', 'WORLD', True),
    ('pascal', '5.25in', 'po', None, 'VOL', 'po', 'HELLO', 'WORLD', False),
    ('cpm2', '5.25in', 'do', None, None, 'do', 'HELLO.TXT', 'WORLD.TXT', False),
    ('cpm2', '5.25in-osb-sd', 'imd', None, None, 'imd', 'HELLO.TXT', 'WORLD.TXT', False),
    ('cpm3', '5.25in-kayii', 'td0', None, 'LAB', 'td0', 'HELLO.TXT', 'WORLD.TXT', False),
    ('fat', '5.25in-ibm-dsdd9', 'img', None, 'LAB', 'img', 'HELLO.TXT', 'WORLD.TXT', True),
    ('fat', '3.5in-ibm-720', 'imd', None, 'LAB', 'imd', 'HELLO.TXT', 'WORLD.TXT', True),
    ('fat', '5.25in-ibm-ssdd9', 'td0', None, 'LAB', 'td0', 'HELLO.TXT', 'WORLD.TXT', True),
    ('dos33', '5.25in', 'nib', None, '254', 'nib', 'HELLO', 'WORLD', False),
]

def make_image(d, i, spec, populate=True):
    o, k, ty, w, v, ext, n1, n2, dirs = spec
    p = os.path.join(d, f"img{i}.{ext}")
    args = ['mkdsk', '-o', o, '-k', k, '-t', ty, '-d', p]
    if v:
        args += ['-v', v]
    if w:
        args += ['-w', w]
    rc, out, err = run(args)
    if rc != 0:
        return None
    if populate:
        run(['put', '-d', p, '-f', n1, '-t', 'txt'], stdin=b'HELLO WORLD\nSECOND LINE\n')
        run(['put', '-d', p, '-f', n2, '-t', 'bin', '-a', '768'], stdin=bytes(range(200)))
        if dirs:
            run(['mkdir', '-d', p, '-f', 'SUB'])
            run(['put', '-d', p, '-f', 'SUB/INNER' + ('.TXT' if '.' in n1 else ''), '-t', 'txt'], stdin=b'INNER\n')
    return p
