#!/bin/sh
# usage: lib/new_probe.sh <PID> <id>   -- scratch worktree /tmp/mut/<id> and prompt /tmp/mut/<id>.prompt.txt for a violation hunt on the unchanged tree
set -e
PID=$1; ID=$2
mkdir -p /tmp/mut
git -C /repo worktree add --detach /tmp/mut/$ID HEAD >/dev/null 2>&1
python3 - "$PID" "$ID" <<'PY'
import json,sys
pid,i=sys.argv[1],sys.argv[2]
for l in open('/verif/properties.jsonl'):
    d=json.loads(l)
    if d['id']==pid: break
prop=f"{d['id']}: {d['title']}\n\n{d['statement']}\n\nQuantifier: {d['quantifier']['text']}\n\nRelevant source files: {', '.join(d['anchors']['files'])}\n"
t=open('/verif/lib/probe_prompt.tmpl').read().replace('@ID@',i).replace('@PID@',pid).replace('@PROP@',prop)
open(f'/tmp/mut/{i}.prompt.txt','w').write(t)
PY
echo /tmp/mut/$ID.prompt.txt
