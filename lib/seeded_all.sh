#!/bin/sh
# run every seeded change against the check of its property (quick tier) and record the outcome in its meta.json
cd /verif
for d in seeded/*/; do
  id=$(basename $d)
  prop=$(python3 -c "import json;print(json.load(open('$d/meta.json'))['property'])")
  out=$(lib/try_seeded.sh $id $prop quick 2>&1 | grep -v "^KNOWN" | tail -3 | tr '\n' ' ')
  case "$out" in *VIOLATION*) res=DETECTED;; *) res=MISSED;; esac
  echo "$id $prop $res :: $out" | cut -c1-260
  python3 - "$d" "$res" "$out" <<'PY'
import json,sys,datetime
d,res,out=sys.argv[1:4]
p=d+'meta.json'; m=json.load(open(p))
v=m.get('verif') or {}
v['regression_run']={'result':res,'check_output':out[:300]}
m['verif']=v
json.dump(m,open(p,'w'),indent=1)
PY
done
cd /repo && git status --short | head -3
