"""C02 -- file-system property; see fscommon.py and coq/theories/Props/C02.v"""
import fscommon

def run(ctx, model_ok=True):
    fscommon.standard_run(ctx, 'C02', opts='r', lock_heavy=False, model_ok=model_ok, also=('C01',))

def replay(ctx, rp):
    fscommon.replay(ctx, 'C02', rp, also=('C01',))
