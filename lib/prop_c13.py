"""C13 -- file packing encodings are exact inverse pairs."""
import framework as fw
from framework import hexs

NEEDS_BINS = True

def run(ctx, model_ok=True):
    rng = ctx.rng
    quick = ctx.tier == 'quick'
    lines = []
    for i in range(30 if quick else 300):
        chunk = rng.choice([256, 512, 1024, 128, 1, 7])
        n = rng.choice([1, chunk - 1, chunk, chunk + 1, 2 * chunk, 2 * chunk + 1, rng.randrange(1, 5000)])
        lines.append(f"deseq q{i} {chunk} {hexs(bytes(rng.randrange(256) for _ in range(max(1, n))))}")
    for i in range(20 if quick else 200):
        n = rng.choice([1, 2, 255, 256, 300, rng.randrange(1, 3000)])
        addr = rng.choice([0, 768, 8192, 65535, 65536, 70000])
        lines.append(f"dosbin b{i} {addr} {hexs(bytes(rng.randrange(256) for _ in range(n)))}")
        lines.append(f"dostok t{i} {hexs(bytes(rng.randrange(256) for _ in range(n)))}")
        pn = rng.choice([1, 511, 512, 513, 1024, rng.randrange(1, 3000)])
        lines.append(f"probin pb{i} {rng.choice([0, 768, 8192, 65535, 65536, 73728, 1 << 20])} {hexs(bytes(rng.randrange(256) for _ in range(pn)))}")
    big = bytes(rng.randrange(256) for _ in range(65536))
    lines += [f"dosbin bb0 768 {hexs(big)}", f"dosbin bb1 768 {hexs(big[:-1])}", f"dostok tb0 {hexs(big)}", f"dostok tb1 {hexs(big[:-1])}"]
    # Pascal text codec: lines with indentation runs around the count limits, page boundaries (1024), CR LF, lines longer than a page (refused),
    # text without a final newline, bytes outside ASCII; decoding of arbitrary bytes (counts below 32, NUL, DEL, high bit)
    def ptext():
        t = bytearray()
        for _ in range(rng.choice([1, 2, 5, 20, 60])):
            if rng.random() < 0.4:
                t += b' ' * rng.choice([1, 2, 3, 31, 94, 95, 96, 222, 223, 224, 225, 300])
            n = rng.choice([0, 1, 10, 60, 70, 500, 1000, 1019, 1020, 1021, 1022, 1023, 1024, 1030]) if rng.random() < 0.3 else rng.randrange(0, 80)
            t += bytes(rng.randrange(0x20, 0x7f) for _ in range(n))
            t += rng.choice([b'\n', b'\n', b'\n', b'\r\n', b'\r'])
        r = rng.random()
        if r < 0.1:
            t = t.rstrip(b'\r\n')
        elif r < 0.15:
            t[rng.randrange(len(t))] = rng.choice([0xc3, 0x7f, 0x10, 0x00, 0x09])
        return bytes(t[:7000])
    for i in range(40 if quick else 400):
        t = ptext()
        try:
            t.decode('utf-8')
        except UnicodeDecodeError:
            t = t.replace(b'\xc3', b'\xc3\xa9')
        lines.append(f"pasenc pe{i} {hexs(t) if t else '-'}")
    for i in range(30 if quick else 300):
        t = ptext()[:1500]
        try:
            t.decode('utf-8')
        except UnicodeDecodeError:
            t = t.replace(b'\xc3', b'\xc3\xa9')
        fs = ['dos3x', 'prodos', 'cpm'][i % 3]
        lines.append(f"txtenc te{i} {fs} {hexs(t) if t else '-'}")
        n = rng.choice([0, 1, 2, 5, 100, 300])
        d = bytes(rng.choice([0x8d, 0x0d, 0x0a, 0x1a, 0x00, 0x7f, 0x80, 0xff, 0xc1, 0x41, rng.randrange(256)]) for _ in range(n))
        # decoders answer with a string: keep the bytes they produce below 128 (everything they can emit is, by construction)
        lines.append(f"txtdec td{i} {fs} {hexs(d) if d else '-'}")
    # record sets packed into a file image (Pack/Records.v): record lengths below, at and beyond the chunk size, neighbours that share a
    # chunk, far records (holes), texts of several fields, texts that fill the record, one byte too many, other characters
    for i in range(60 if quick else 1500):
        fs = ['dos3x', 'prodos'][i % 2]
        rl = rng.choice([1, 2, 3, 16, 64, 127, 128, 200, 255, 256, 257, 300, 511, 512, 513, 600, 1100, 32767, 32768])
        nums = sorted(set(rng.choice([0, 1, 2, 3, 4, 7, rng.randrange(40), rng.randrange(400)]) for _ in range(rng.randrange(0, 9))))
        if rl > 2000:
            nums = nums[:2]
        recs = []
        for nmb in nums:
            ln = rng.choice([0, 1, 5, max(0, rl - 2), max(0, rl - 1), rl, rng.randrange(1, max(2, min(rl, 700)))])
            ln = min(ln, 1300)
            t = ''.join(rng.choice('ABCDEFGHIJ 0123456789,.') for _ in range(ln))
            if ln > 3 and rng.random() < 0.4:
                k = rng.randrange(1, ln - 1)
                t = t[:k] + '\n' + t[k + 1:]
            if rng.random() < 0.05:
                t = t + rng.choice(['\u00e9', '\r\n', 'lower', '\x01'])
            recs.append(f"{nmb}:{hexs(t.encode())}")
        lines.append(f"recpack rp{i} {fs} {rl} {','.join(recs) or '-'}")
    for i in range(30 if quick else 300):
        n = rng.choice([0, 1, 2, 5, 100, 1024, 1500])
        d = bytes(rng.choice([0x10, 0x0d, 0x00, 0x1f, 0x20, 0x21, 0x7e, 0x7f, 0x80, 0xff, 0x41, rng.randrange(256)]) for _ in range(n))
        lines.append(f"pasdec pd{i} {hexs(d) if d else '-'}")
    if model_ok:
        # (a DOS 3.x file image has no end-of-file field: the chunks are compared, the length only on ProDOS)
        canon = lambda toks, o: (o.rsplit(' eof=', 1)[0] if (o is not None and toks[0] == 'recpack' and toks[2] == 'dos3x') else o)
        fw.correspond(ctx, 'pack-pieces (desequence chunking, DOS binary/token headers vs Pack/Fimg.v; Pascal text encoder and decoder vs Pack/PascalText.v; DOS/ProDOS/CP-M text converters vs Pack/Text.v; record sets vs Pack/Records.v)', lines, canon=canon)
    olines = []
    k = 0
    for fs in ['dos3x', 'prodos', 'pascal', 'cpm', 'fat']:
        for what in ['raw', 'bin', 'tok', 'txt', 'rec', 'json']:
            for rep in range(12 if quick else 150):
                olines.append(f"pack p{k} {fs} {what} {rng.randrange(1 << 30)}")
                k += 1
    for fs in ['dos3x', 'prodos']:
        for what, reps in [('recjson', 10), ('recidx', 6), ('rec', 30)]:
            for rep in range(reps if quick else reps * 10):
                olines.append(f"pack p{k} {fs} {what} {rng.randrange(1 << 30)}")
                k += 1
    for rep in range(3 if quick else 9):
        olines.append(f"pack p{k} prodos big {rep}")
        k += 1
    for fs in ['dos3x', 'prodos', 'pascal', 'cpm', 'fat']:
        for L in [255, 256, 257, 511, 512, 513, 514, 1021, 1022, 1023, 1024, 1025, 1026, 1027, 1535, 1536, 1537, 2047, 2048, 2049, 3071, 3072, 3073]:
            for kk in ([1, 2] if quick else [1, 2, 3, 5]):
                for adj in range(4):
                    olines.append(f"txtb x{k} {fs} {L} {kk} {adj}")
                    k += 1
    out = fw.run_lines(fw.HARNESS_BIN, olines, timeout=1400)
    kinds = {}
    for ln in olines:
        t = ln.split()
        o = out.get(t[1])
        ctx.evaluations += 1
        if o is None or not o.startswith('ok'):
            cls = ('panic:' if (o or '').startswith('PANIC') else 'pack:') + t[2] + ':' + (t[3] if t[0] == 'pack' else 'txt')
            ctx.failures.append({'cls': cls, 'case': ln, 'detail': (o or 'NO-OUTPUT')[:500]})
        else:
            kinds[o.split()[1] if len(o.split()) > 1 else 'ok'] = kinds.get(o.split()[1] if len(o.split()) > 1 else 'ok', 0) + 1
            if 'refused' not in o and 'empty' not in o:
                ctx.nontrivial.add(ln)
    cli_roundtrips(ctx)
    ctx.samples += [lines[0][:120], olines[0] + ' -> ' + str(out.get(olines[0].split()[1]))]
    ctx.distribution = {'rule': 'distinct case lines; non-trivial = the packer accepted the input and the round trip was compared', 'piece_cases': len(lines), 'pack_cases': len(olines),
                        'refused': sum(v for k2, v in kinds.items() if k2 == 'refused')}

def cli_roundtrips(ctx):
    """the command line: a2kit pack ... | a2kit unpack ... returns what went in (raw, bin, text, tokens, records), for every OS"""
    import cliutil, json
    rng = ctx.rng
    cases = []
    text = b'HELLO WORLD\nSECOND LINE\n'
    recs = json.dumps({"fimg_type": "rec", "record_length": 32, "records": {"0": ["ALPHA"], "5": ["BETA", "GAMMA"]}}).encode()
    for osn in ['dos33', 'prodos', 'pascal', 'cpm2', 'fat']:
        name = 'T.TXT' if osn in ('cpm2', 'fat') else 'T'
        blk = ['-b', '1024'] if osn == 'cpm2' else ['-b', '512'] if osn == 'fat' else []
        raw = bytes(rng.randrange(256) for _ in range(rng.choice([1, 255, 256, 700])))
        cases.append((osn, 'raw', ['pack', '-t', 'raw', '-o', osn, '-f', name] + blk, raw, ['unpack', '-t', 'raw', '--trunc'], raw))
        cases.append((osn, 'txt', ['pack', '-t', 'txt', '-o', osn, '-f', name] + blk, text, ['unpack', '-t', 'txt'], text))
        cases.append((osn, 'bin', ['pack', '-t', 'bin', '-o', osn, '-f', name, '-a', '768'] + blk, raw, ['unpack', '-t', 'bin'], raw))
        if osn in ('dos33', 'prodos'):
            cases.append((osn, 'rec', ['pack', '-t', 'rec', '-o', osn, '-f', name], recs, ['unpack', '-t', 'rec', '-l', '32'], None))
    for osn, what, pk, data, up, want in cases:
        ctx.evaluations += 1
        rc1, fimg, err1 = cliutil.run(pk, stdin=data)
        if rc1 != 0:
            ctx.failures.append({'cls': f'cli:{osn}:{what}', 'case': 'a2kit ' + ' '.join(pk), 'detail': f'pack exited with {rc1}: {err1.decode("utf-8", "replace")[-200:]}'})
            continue
        rc2, out, err2 = cliutil.run(up, stdin=fimg)
        ok = rc2 == 0 and (out == want if want is not None else (b'"ALPHA"' in out and b'"GAMMA"' in out and b'"5"' in out))
        if ok or (rc2 == 0 and what == 'raw' and osn in ('dos33', 'cpm2') and out.startswith(want) and len(out) - len(want) < 256):
            ctx.nontrivial.add(f'cli {osn} {what}')
        else:
            ctx.failures.append({'cls': f'cli:{osn}:{what}', 'case': 'a2kit ' + ' '.join(pk) + ' | a2kit ' + ' '.join(up),
                                 'detail': f'unpack exited with {rc2}; output {len(out)} bytes, expected {len(want) if want is not None else "records"}: {err2.decode("utf-8", "replace")[-200:]}'})


def replay(ctx, rp):
    f = rp.get('failure')
    if f:
        out = fw.run_lines(fw.HARNESS_BIN, [f['case']])
        o = out.get(f['case'].split()[1])
        print('replay:', f['case'], '->', o)
        if o is None or not o.startswith('ok'):
            ctx.failures.append({'cls': f['cls'], 'case': f['case'], 'detail': (o or '')[:500]})
    else:
        run(ctx)
