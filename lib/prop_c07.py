"""C07 -- volume content does not depend on the container format."""
import os
import framework as fw

NEEDS_BINS = True
from geomtab import KINDS, IBM_KINDS, CPM_KINDS, shift_of

def dpb_info(kinds):
    lines = [f"dpbinfo d{i} {k}" for i, k in enumerate(kinds)]
    out = fw.run_lines(fw.HARNESS_BIN, lines, shards=1)
    res = {}
    for i, k in enumerate(kinds):
        o = out.get(f"d{i}", '')
        try:
            bsh, off, dsm, drm, exm, spt = [int(x) for x in o.split()]
            res[k] = dict(bsh=bsh, off=off, dsm=dsm)
        except ValueError:
            res[k] = None
    return res

def gen_cells(ctx, dpbs):
    """(case line for both sides) -- the model family is encoded in the line; the harness ignores it.
    line: cells <id> <label> <family> <btype> args...   (harness reads label, driver reads family)"""
    rng = ctx.rng
    quick = ctx.tier == 'quick'
    lines = []
    k = [0]
    def add(label, family, btype, *args):
        lines.append(f"cells c{k[0]} {label} {family} {btype} " + ' '.join(str(a) for a in args))
        k[0] += 1
    n = 6 if quick else 60
    for label, fam in [('do:5.25in', 'do'), ('2mg-do:5.25in', 'do'), ('nib:5.25in', 'woz'), ('woz1:5.25in', 'woz'), ('woz2:5.25in', 'woz'), ('2mg-nib:5.25in', 'woz')]:
        for _ in range(n):
            add(label, fam, 'do', rng.randrange(35), rng.randrange(16))
            add(label, fam, 'po', rng.choice([0, 279, 7, 8, rng.randrange(280)]))
            add(label, fam, 'cpm', rng.choice([0, 127, rng.randrange(128)]), 3, 3)
    for label in ['d13:5.25in-13', 'nib:5.25in-13', 'woz1:5.25in-13', 'woz2:5.25in-13']:
        for _ in range(n):
            add(label, 'd13', 'd13', rng.randrange(35), rng.randrange(13))
    for label, sides, nb in [('woz2:3.5in-ss', 1, 800), ('woz2:3.5in-ds', 2, 1600)]:
        bounds = [0, 191, 192, 367, 368, 799, 383, 384, 1599]
        for _ in range(n):
            add(label, f'woz35:{sides}', 'po', rng.choice([b for b in bounds if b < nb] + [rng.randrange(nb)]))
    for kind in IBM_KINDS:
        g = KINDS[kind]
        total = g['cyls'] * g['heads'] * g['spt']
        for typ in ['img', 'imd', 'td0']:
            if kind == '3.5in-ibm-2880' and typ != 'img':
                continue   # creation of these panics (known finding of C10), not this property
            for _ in range(max(1, n // 3)):
                nsec = rng.choice([1, 2])
                s1 = rng.choice([0, total - nsec, g['spt'] - 1, rng.randrange(total - nsec)])
                add(f'{typ}:{kind}', f"fat:{g['spt']}:{g['heads']}:{g['secsize']}", 'fat', s1, nsec)
    for kind in CPM_KINDS:
        g = KINDS[kind]
        d = dpbs.get(kind)
        if not d:
            continue
        for typ in ['imd', 'td0']:
            for _ in range(max(1, n // 2)):
                b = rng.choice([0, d['dsm'], 1, rng.randrange(d['dsm'] + 1)])
                add(f'{typ}:{kind}', f"cpm:{typ}:{g['ident']}:{g['spt']}:{shift_of(g['secsize'])}:{g['heads']}", 'cpm', b, d['bsh'], d['off'])
    return lines

def gen_cross(ctx, dpbs):
    rng = ctx.rng
    quick = ctx.tier == 'quick'
    lines = []
    k = 0
    nops = 40 if quick else 200
    reps = 1 if quick else 8
    groups = [('do', ['do:5.25in', 'nib:5.25in', 'woz1:5.25in', 'woz2:5.25in', '2mg-do:5.25in', '2mg-nib:5.25in']),
              ('po', ['do:5.25in', 'po:5.25in', 'nib:5.25in', 'woz1:5.25in', 'woz2:5.25in', '2mg-do:5.25in', '2mg-nib:5.25in']),
              ('cpm', ['do:5.25in', 'nib:5.25in', 'woz2:5.25in', 'woz1:5.25in']),
              ('d13', ['d13:5.25in-13', 'nib:5.25in-13', 'woz1:5.25in-13', 'woz2:5.25in-13']),
              ('po', ['po:3.5in-ss', 'woz2:3.5in-ss', '2mg-po:3.5in-ss']),
              ('po', ['po:3.5in-ds', 'woz2:3.5in-ds', '2mg-po:3.5in-ds'])]
    for kind in IBM_KINDS:
        if kind == '3.5in-ibm-2880':
            continue
        groups.append(('fat1', [f'img:{kind}', f'imd:{kind}', f'td0:{kind}']))
    for kind in CPM_KINDS:
        groups.append(('cpm', [f'imd:{kind}', f'td0:{kind}']))
    for btype, labels in groups:
        for _ in range(reps):
            lines.append(f"cross x{k} {rng.randrange(1 << 30)} {nops} {btype} " + ' '.join(labels))
            k += 1
    return lines

def canon_cells(toks, text):
    return text

MKDSK = [  # (os, kind, volume, unit, [(type, wrap, ext), ...]) : the same format of the same disk kind in every image type that holds it
    ('prodos', '5.25in', 'VOL', 'po', [('po', None, 'po'), ('do', None, 'do'), ('woz2', None, 'woz'), ('woz1', None, 'woz'), ('nib', None, 'nib'), ('2mg', 'po', '2mg'), ('2mg', 'do', '2mg')]),
    ('prodos', '3.5in-ss', 'VOL', 'po', [('po', None, 'po'), ('2mg', 'po', '2mg'), ('woz2', None, 'woz')]),
    ('prodos', '3.5in-ds', 'VOL', 'po', [('po', None, 'po'), ('2mg', 'po', '2mg'), ('woz2', None, 'woz')]),
    ('pascal', '5.25in', 'VOL', 'po', [('po', None, 'po'), ('do', None, 'do'), ('woz2', None, 'woz'), ('nib', None, 'nib')]),
    ('dos33', '5.25in', '254', 'sec', [('do', None, 'do'), ('woz2', None, 'woz'), ('woz1', None, 'woz'), ('nib', None, 'nib'), ('2mg', 'do', '2mg')]),
    ('dos32', '5.25in', '254', 'sec', [('d13', None, 'd13'), ('woz2', None, 'woz'), ('woz1', None, 'woz'), ('nib', None, 'nib')]),
    ('cpm2', '5.25in', None, 'sec', [('do', None, 'do'), ('woz2', None, 'woz'), ('nib', None, 'nib')]),
    ('cpm2', '8in', None, 'sec', [('imd', None, 'imd'), ('td0', None, 'td0')]),
    ('cpm2', '5.25in-kayii', None, 'sec', [('imd', None, 'imd'), ('td0', None, 'td0')]),
    ('fat', '5.25in-ibm-dsdd9', None, 'sec', [('img', None, 'img'), ('imd', None, 'imd'), ('td0', None, 'td0')]),
    ('fat', '3.5in-ibm-720', None, 'sec', [('img', None, 'img'), ('imd', None, 'imd'), ('td0', None, 'td0')]),
]


def mkdsk_scenarios(ctx):
    """the volume that mkdsk formats is the same in every image type (fixed clock, so the time stamps agree as well)"""
    import tempfile, shutil, cliutil
    d = tempfile.mkdtemp(dir=fw.BUILD)
    env = {'LD_PRELOAD': os.path.join(fw.BUILD, 'fixclock.so')} if os.path.exists(os.path.join(fw.BUILD, 'fixclock.so')) else None
    lines = []
    try:
        k = 0
        for osn, kind, vol, unit, types in MKDSK:
            made = []
            for j, (ty, wrap, ext) in enumerate(types):
                p = os.path.join(d, f"{osn}-{kind}-{j}.{ext}")
                args = ['mkdsk', '-o', osn, '-t', ty, '-k', kind, '-d', p] + (['-v', vol] if vol else []) + (['-w', wrap] if wrap else [])
                rc, _, err = cliutil.run(args, env=env)
                if rc == 0:
                    made.append((ty, wrap, p))
            for ty, wrap, p in made[1:]:
                glabel = '5.25in-13' if osn == 'dos32' else kind
                lines.append((f"imgcmp x{k} {unit} {glabel} {made[0][2]} {p}", f"{osn} {kind}: {made[0][0]} vs {ty}{'/' + wrap if wrap else ''}"))
                k += 1
        out = fw.run_lines(fw.HARNESS_BIN, [l[0] for l in lines])
        for ln, what in lines:
            o = out.get(ln.split()[1])
            ctx.evaluations += 1
            if o is None or not o.startswith('ok'):
                ctx.failures.append({'cls': 'mkdsk-cross:' + what.split(':')[0].replace(' ', ':'), 'case': 'a2kit mkdsk ' + what, 'detail': (o or 'NO-OUTPUT')[:400]})
            else:
                ctx.nontrivial.add('mkdsk ' + what)
    finally:
        shutil.rmtree(d, ignore_errors=True)


def run(ctx, model_ok=True):
    dpbs = dpb_info(CPM_KINDS)
    cells = gen_cells(ctx, dpbs)
    # the harness takes `cells id label btype args` ; the driver takes `cells id family btype args`
    impl_lines = []
    model_lines = []
    for ln in cells:
        t = ln.split()
        impl_lines.append(' '.join(t[:3] + ['_'] + t[4:]))
        model_lines.append(' '.join(t[:2] + t[3:]))
    impl = fw.run_lines(fw.HARNESS_BIN, impl_lines)
    model = fw.run_lines(fw.MODEL_BIN, model_lines) if model_ok else {}
    dis = []
    for ln in cells:
        cid = ln.split()[1]
        ctx.evaluations += 1
        a, b = impl.get(cid), model.get(cid)
        if a is None or (model_ok and a != b):
            dis.append({'case': ln, 'impl': (a or 'NO-OUTPUT')[:400], 'model': (b or 'NO-OUTPUT')[:400]})
            if a is None or a.startswith('PANIC') or a.startswith('bad-cover') or a.startswith('write-err') or a.startswith('scan'):
                ctx.failures.append({'cls': 'cells:' + ln.split()[2].split(':')[0], 'case': ln, 'detail': (a or 'NO-OUTPUT')[:600]})
        else:
            ctx.traces_validated += 1
            ctx.nontrivial.add(ln)
    ctx.streams.append({'name': 'cells', 'cases': len(cells), 'disagreements': len(dis), 'first': dis[:3]})
    if model_ok:
        ctx.oblige(f'correspondence/cells: the physical records a block write touches = Img/Skew.v cells, on {len(cells)} (container, block) probes', not dis,
                   str(dis[:1])[:1200] if dis else '')
    cross = gen_cross(ctx, dpbs)
    out = fw.run_lines(fw.HARNESS_BIN, cross)
    nok = 0
    for ln in cross:
        cid = ln.split()[1]
        ctx.evaluations += 1
        o = out.get(cid)
        if o is None or not o.startswith('ok'):
            ctx.failures.append({'cls': 'cross:' + ln.split()[4], 'case': ln, 'detail': (o or 'NO-OUTPUT')[:600]})
        else:
            nok += 1
            ctx.nontrivial.add(ln)
    mkdsk_scenarios(ctx)
    ctx.samples += [cells[0] + ' -> ' + str(impl.get(cells[0].split()[1]))[:100], cross[0] + ' -> ' + str(out.get(cross[0].split()[1]))]
    ctx.distribution = {'rule': 'distinct case lines; non-trivial = the block write was accepted and every record located / every container compared',
                        'cells_cases': len(cells), 'cross_cases': len(cross), 'cross_ok': nok}

def replay(ctx, rp):
    f = rp.get('failure')
    if f and f['case'].startswith('cross'):
        out = fw.run_lines(fw.HARNESS_BIN, [f['case']])
        o = out.get(f['case'].split()[1])
        print('replay:', f['case'][:200], '->', o)
        if o is None or not o.startswith('ok'):
            ctx.failures.append({'cls': f['cls'], 'case': f['case'], 'detail': (o or '')[:600]})
    else:
        run(ctx)
