"""Common machinery of ./check: build (translator, Coq, extraction, harness), audit, correspondence
runner, verdict rules (DESIGN 4.3), evidence writer."""
import os, sys, json, time, subprocess, re, hashlib, fcntl, random

VERIF = os.path.dirname(os.path.dirname(os.path.abspath(__file__)))
REPO = os.environ.get('A2KIT_REPO', '/repo')
BUILD = os.path.join(VERIF, '.build')
COQ = os.path.join(VERIF, 'coq')
HARNESS_BIN = os.path.join(BUILD, 'target', 'debug', 'a2v')
MODEL_BIN = os.path.join(BUILD, 'ocaml', 'model_driver')
BINS_DIR = os.path.join(BUILD, 'target-bins', 'debug')
ALLOWED_AXIOMS = set()   # target: every Props theorem is closed under the global context

FORBIDDEN = re.compile(r'\bAdmitted\b|\badmit\b|\bAxiom\b|\bAxioms\b|\bParameter\b|\bParameters\b|\bConjecture\b|Admit\s+Obligations|'
                       r'Unset\s+Guard\s+Checking|Unset\s+Positivity\s+Checking|Unset\s+Universe\s+Checking|bypass_check|type-in-type|impredicative-set')

def sh(cmd, timeout=1800, cwd=None, env=None, input=None):
    e = dict(os.environ)
    e.update({'CARGO_NET_OFFLINE': 'true'})
    if env:
        e.update(env)
    try:
        p = subprocess.run(cmd, shell=isinstance(cmd, str), cwd=cwd, env=e, input=input, capture_output=True, text=True, timeout=timeout)
        return p.returncode, p.stdout, p.stderr
    except subprocess.TimeoutExpired as ex:
        return 124, (ex.stdout or b'').decode('utf-8', 'replace') if isinstance(ex.stdout, bytes) else (ex.stdout or ''), 'TIMEOUT'

class Lock:
    def __init__(self, name):
        os.makedirs(BUILD, exist_ok=True)
        self.path = os.path.join(BUILD, name + '.lock')
    def __enter__(self):
        self.f = open(self.path, 'w')
        fcntl.flock(self.f, fcntl.LOCK_EX)
    def __exit__(self, *a):
        fcntl.flock(self.f, fcntl.LOCK_UN)
        self.f.close()

def strip_coq_comments(s):
    out = []
    depth = 0
    i = 0
    while i < len(s):
        if s.startswith('(*', i):
            depth += 1; i += 2
        elif s.startswith('*)', i) and depth > 0:
            depth -= 1; i += 2
        else:
            if depth == 0:
                out.append(s[i])
            i += 1
    return ''.join(out)

def audit_sources():
    """grep the whole development for forbidden declarations; returns list of offences"""
    bad = []
    for root, _, files in os.walk(COQ):
        for fn in files:
            if not fn.endswith('.v'):
                continue
            p = os.path.join(root, fn)
            txt = strip_coq_comments(open(p).read())
            for m in FORBIDDEN.finditer(txt):
                bad.append(f"{os.path.relpath(p, VERIF)}: forbidden `{m.group(0)}`")
            depth = 0
            for line in txt.split('\n'):
                l = line.strip()
                if re.match(r'(Section|Module)\s+\w+', l):
                    if l.startswith('Section'):
                        depth += 1
                elif re.match(r'End\s+\w+\s*\.', l) and depth > 0:
                    depth -= 1
                elif depth == 0 and re.match(r'(Variable|Variables|Hypothesis|Hypotheses|Context)\b', l):
                    bad.append(f"{os.path.relpath(p, VERIF)}: `{l.split()[0]}` outside a section")
    return bad

class Ctx:
    def __init__(self, pid, tier, seed):
        self.pid, self.tier, self.seed = pid, tier, seed
        self.t0 = time.time()
        self.obligations = []      # (name, ok, detail)
        self.streams = []          # dicts
        self.failures = []         # oracle failures: dict(cls, case, detail)
        self.known_printed = []
        self.samples = []
        self.distribution = {}
        self.notes = []
        self.evaluations = 0
        self.nontrivial = set()
        self.trusted = []
        self.partial = []
        self.rng = random.Random(seed)
        self.traces_validated = 0
        self.extra_cov = {}

    def oblige(self, name, ok, detail=''):
        self.obligations.append((name, bool(ok), detail))

# ------------------------------------------------------------------------------------------------
def run_translator(ctx):
    rc, out, err = sh([sys.executable, os.path.join(VERIF, 'translator', 'gen.py'), '--repo', REPO], timeout=300)
    ok = rc == 0
    ctx.oblige('tie/translator: regenerate coq/theories/Gen/*.v from /repo', ok, (err or out).strip()[-2000:])
    return ok

def coq_makefile():
    mk = os.path.join(COQ, 'Makefile')
    cp = os.path.join(COQ, '_CoqProject')
    if not os.path.exists(mk) or os.path.getmtime(mk) < os.path.getmtime(cp):
        sh('coq_makefile -f _CoqProject -o Makefile', cwd=COQ, timeout=120)

def build_coq(ctx, props_file):
    """build theories/Props/<props_file>.vo (and everything it needs); capture Print Assumptions"""
    coq_makefile()
    vo = f'theories/Props/{props_file}.vo'
    try:
        os.remove(os.path.join(COQ, vo))
    except FileNotFoundError:
        pass
    rc, out, err = sh(f'timeout 1500 make -j16 {vo}', cwd=COQ, timeout=1600)
    log = out + '\n' + err
    os.makedirs(os.path.join(BUILD, 'logs'), exist_ok=True)
    open(os.path.join(BUILD, 'logs', f'{props_file}.coq.log'), 'w').write(log)
    src = open(os.path.join(COQ, f'theories/Props/{props_file}.v')).read()
    src_nc = strip_coq_comments(src)
    theorems = re.findall(r'\b(?:Theorem|Corollary)\s+(\w+)', src_nc)
    n_pa = len(re.findall(r'Print\s+Assumptions', src_nc))
    if rc != 0:
        # find which file failed
        m = re.search(r'File "([^"]+)", line (\d+)[^\n]*\n(?:.*\n){0,6}?Error:([^\n]*(?:\n[^\n]*){0,4})', log)
        where = f"{m.group(1)}:{m.group(2)}: {m.group(3).strip()[:600]}" if m else log[-1500:]
        for t in theorems or [props_file]:
            ctx.oblige(f'proof/{props_file}.{t}', False, where)
        return False
    closed = len(re.findall(r'Closed under the global context', log))
    axioms = re.findall(r'^\s*(\w[\w.\']*)\s*:', log[log.find('Axioms:'):], flags=re.M) if 'Axioms:' in log else []
    bad_ax = [a for a in axioms if a not in ALLOWED_AXIOMS]
    for t in theorems:
        ctx.oblige(f'proof/{props_file}.{t}', True, 'Qed; Print Assumptions: closed under the global context' if not bad_ax else 'see axioms')
    ctx.oblige(f'axioms/{props_file}: {n_pa} Print Assumptions all closed', closed >= n_pa and not bad_ax and n_pa >= len(theorems),
               f'closed={closed} expected={n_pa} theorems={len(theorems)} axioms={bad_ax}')
    return True

def audit(ctx):
    bad = audit_sources()
    ctx.oblige('audit: no Admitted/admit/Axiom/Parameter/Conjecture/guard switches in coq/', not bad, '; '.join(bad)[:1500])
    return not bad

def build_model(ctx):
    """extract the executable model and build the OCaml driver"""
    od = os.path.join(BUILD, 'ocaml')
    os.makedirs(od, exist_ok=True)
    # the extraction needs every model .vo
    coq_makefile()
    rc, out, err = sh('timeout 1500 make -j16 models', cwd=COQ, timeout=1600)
    if rc != 0:
        ctx.oblige('tie/extraction: model files build', False, (out + err)[-1500:])
        return False
    srcs = [os.path.join(COQ, 'extract', 'Extract.v'), os.path.join(VERIF, 'ocaml', 'driver.ml')]
    stamp = os.path.join(od, 'stamp')
    h = hashlib.sha256()
    for root, _, files in os.walk(os.path.join(COQ, 'theories')):
        for fn in sorted(files):
            if fn.endswith('.v') and '/Props' not in root and not fn.endswith('Proofs.v'):
                h.update(open(os.path.join(root, fn), 'rb').read())
    for s in srcs:
        h.update(open(s, 'rb').read())
    dig = h.hexdigest()
    if os.path.exists(stamp) and open(stamp).read() == dig and os.path.exists(MODEL_BIN):
        ctx.oblige('tie/extraction: model extracted (ExtrOcamlBasic only) and driver built', True, 'cached')
        return True
    rc, out, err = sh(f'coqc -Q {COQ}/theories A2 {COQ}/extract/Extract.v', cwd=od, timeout=900)
    if rc != 0:
        ctx.oblige('tie/extraction: model extracted (ExtrOcamlBasic only) and driver built', False, (out + err)[-1500:])
        return False
    sh(f'cp {VERIF}/ocaml/driver.ml . && rm -f model.mli', cwd=od)
    rc, out, err = sh('ocamlfind ocamlopt -O3 -w -a model.ml driver.ml -o model_driver', cwd=od, timeout=900)
    ok = rc == 0
    if ok:
        open(stamp, 'w').write(dig)
    ctx.oblige('tie/extraction: model extracted (ExtrOcamlBasic only) and driver built', ok, (out + err)[-1500:])
    return ok

def build_harness(ctx):
    hd = os.path.join(VERIF, 'harness')
    lock = os.path.join(hd, 'Cargo.lock')
    rl = os.path.join(REPO, 'Cargo.lock')
    if os.path.exists(rl) and (not os.path.exists(lock)):
        sh(f'cp {rl} {lock}')
    env = {'RUSTFLAGS': '--cfg a2kit_verif', 'CARGO_TARGET_DIR': os.path.join(BUILD, 'target')}
    rc, out, err = sh('cargo build --offline', cwd=hd, env=env, timeout=1700)
    ok = rc == 0
    ctx.oblige('build/harness: a2kit (current /repo tree, --cfg a2kit_verif) + harness compile', ok, err[-1500:] if not ok else '')
    return ok

def build_bins(ctx):
    """the real CLI / server binaries, built from /repo's working tree into .build/target-bins"""
    env = {'CARGO_TARGET_DIR': os.path.join(BUILD, 'target-bins'), 'RUSTFLAGS': '--cfg a2kit_verif'}
    rc, out, err = sh('cargo build --offline --bins', cwd=REPO, env=env, timeout=1700)
    ok = rc == 0
    ctx.oblige('build/bins: a2kit binaries from the current /repo tree', ok, err[-1500:] if not ok else '')
    return ok

# ------------------------------------------------------------------------------------------------
def run_lines(binary, lines, timeout=1500, shards=16, env=None):
    """run a line-protocol binary over case lines, sharded; returns dict id -> output text"""
    if not lines:
        return {}
    ids = [l.split(None, 2)[1] for l in lines if len(l.split(None, 2)) > 1]
    if len(set(ids)) != len(ids):
        dup = sorted({i for i in ids if ids.count(i) > 1})[:5]
        raise ValueError(f"case ids must be unique within one run (results are keyed by id): {dup}")
    n = min(shards, max(1, len(lines) // 8))
    chunks = [lines[i::n] for i in range(n)]
    e = dict(os.environ)
    if env:
        e.update(env)
    procs = []
    for ch in chunks:
        p = subprocess.Popen([binary], stdin=subprocess.PIPE, stdout=subprocess.PIPE, stderr=subprocess.DEVNULL, text=True, env=e)
        procs.append((p, ch))
    # feed concurrently using threads to avoid pipe deadlocks
    import threading
    outs = [None] * len(procs)
    def work(i):
        p, ch = procs[i]
        try:
            o, _ = p.communicate('\n'.join(ch) + '\n', timeout=timeout)
            outs[i] = o
        except subprocess.TimeoutExpired:
            p.kill()
            outs[i] = ''
    ths = [threading.Thread(target=work, args=(i,)) for i in range(len(procs))]
    for t in ths: t.start()
    for t in ths: t.join()
    res = {}
    for o in outs:
        for line in (o or '').split('\n'):
            if not line:
                continue
            sp = line.split(' ', 1)
            res[sp[0]] = sp[1] if len(sp) > 1 else ''
    # a process that died (abort, stack overflow, kill) loses the rest of its shard: rerun the missing cases one per process
    missing = [ln for ln in lines if ln.split()[1] not in res]
    if missing and len(missing) < len(lines) or (missing and len(lines) <= 4):
        for ln in missing[:400]:
            try:
                p = subprocess.run([binary], input=ln + '\n', capture_output=True, text=True, timeout=60, env=e)
                got = False
                for line in p.stdout.split('\n'):
                    if line:
                        sp = line.split(' ', 1)
                        res[sp[0]] = sp[1] if len(sp) > 1 else ''
                        got = True
                if not got:
                    res[ln.split()[1]] = f'CRASH process died without output (exit code {p.returncode}) {p.stderr[-200:].strip()}'
            except subprocess.TimeoutExpired:
                res[ln.split()[1]] = 'CRASH no output within 60 s (hang)'
    return res

def correspond(ctx, name, lines, impl_filter=None, canon=None, trivial=None):
    """run model and implementation on the same case lines and compare per case id.
    canon(tokens, text) -> canonical text (applied to both sides). Returns (impl, model) dicts."""
    impl = run_lines(HARNESS_BIN, lines)
    model = run_lines(MODEL_BIN, lines)
    dis = []
    for ln in lines:
        toks = ln.split()
        cid = toks[1]
        a, b = impl.get(cid), model.get(cid)
        if canon:
            a2, b2 = canon(toks, a), canon(toks, b)
        else:
            a2, b2 = a, b
        ctx.evaluations += 1
        if a2 != b2 or a is None:
            dis.append({'case': ln if len(ln) < 4000 else ln[:4000] + '...', 'impl': (a or 'NO-OUTPUT')[:600], 'model': (b or 'NO-OUTPUT')[:600]})
        else:
            ctx.traces_validated += 1
        if not (trivial and trivial(toks, a)):
            ctx.nontrivial.add(hashlib.sha1(ln.encode()).hexdigest())
    st = {'name': name, 'cases': len(lines), 'disagreements': len(dis), 'first': dis[:3]}
    ctx.streams.append(st)
    ctx.oblige(f'correspondence/{name}: model = implementation on {len(lines)} cases', not dis,
               json.dumps(dis[:1])[:1500] if dis else '')
    return impl, model

# ------------------------------------------------------------------------------------------------
def load_known():
    """open entries of known-findings.txt as dicts(property, cls, match, what, id)"""
    p = os.path.join(VERIF, 'known-findings.txt')
    out = []
    if os.path.exists(p):
        for i, l in enumerate(open(p)):
            l = l.strip()
            if not l.startswith('open:'):
                continue
            head, _, what = l[5:].partition('|')
            kv = dict(re.findall(r'(\w+)=(\S*)', head))
            out.append({'property': kv.get('property'), 'class': kv.get('class'), 'match': kv.get('match', '').replace('_', ' '),
                        'what': what.strip(), 'id': i, 'status': 'open'})
    return out

def default_known_match(k, f):
    return k.get('class') == f.get('cls') and (k.get('match', '') in (f.get('detail', '') + ' ' + f.get('case', '')))

def finish(ctx, known_match=None):
    """verdict per DESIGN 4.3; writes evidence; prints VIOLATION / KNOWN-FINDING lines; returns exit code"""
    props = {ctx.pid} | set(getattr(ctx, 'also_props', ()))
    known = [k for k in load_known() if k.get('property') in props and k.get('status') == 'open']
    violations = []
    os.makedirs(os.path.join(VERIF, 'replay'), exist_ok=True)
    # rule 3 / rule 1: oracle failures
    unlisted = []
    listed = {}
    for f in ctx.failures:
        hit = None
        for k in known:
            if (known_match or default_known_match)(k, f):
                hit = k; break
        if hit:
            listed.setdefault(hit['id'], (hit, f))
        else:
            unlisted.append(f)
    for kid, (k, f) in listed.items():
        print(f"KNOWN-FINDING: property={ctx.pid} {k['what']}")
        ctx.known_printed.append(k['what'])
    ctx.oblige('oracle: the implementation-side property oracles found no failure outside known-findings.jsonl', not unlisted,
               json.dumps(unlisted[:2])[:1200] if unlisted else f'{len(ctx.failures)} failures, all in listed open classes' if ctx.failures else '')
    broken = [(n, d) for (n, ok, d) in ctx.obligations if not ok]
    rc = 0
    if unlisted:
        f = unlisted[0]
        h = hashlib.sha1(json.dumps(f, sort_keys=True).encode()).hexdigest()[:12]
        path = os.path.join(VERIF, 'replay', f'{ctx.pid}-{h}.json')
        json.dump({'property': ctx.pid, 'kind': 'failing-input', 'failure': f, 'other_failures': unlisted[1:10],
                   'broken_obligations': broken[:10], 'seed': ctx.seed, 'tier': ctx.tier,
                   'how_to_replay': f'./check {ctx.pid} --replay {path}'}, open(path, 'w'), indent=1)
        print(f"VIOLATION property={ctx.pid} replay={path}")
        rc = 1
    elif broken:
        h = hashlib.sha1(json.dumps(broken, sort_keys=True).encode()).hexdigest()[:12]
        path = os.path.join(VERIF, 'replay', f'{ctx.pid}-{h}.json')
        json.dump({'property': ctx.pid, 'kind': 'broken-obligation', 'no_longer_checks': [{'obligation': n, 'detail': d} for n, d in broken],
                   'streams': ctx.streams, 'seed': ctx.seed, 'tier': ctx.tier,
                   'note': 'the failing-input search over the implementation found no input on which the property itself fails'},
                  open(path, 'w'), indent=1)
        print(f"VIOLATION property={ctx.pid} replay={path} no-failing-input-found")
        rc = 1
    write_evidence(ctx, len(unlisted) + (1 if (broken and not unlisted) else 0))
    return rc

def write_evidence(ctx, nviol):
    ob = len(ctx.obligations)
    dis = sum(1 for (_, ok, _) in ctx.obligations if ok)
    ev = {
        'property_id': ctx.pid, 'tier': ctx.tier, 'seed': ctx.seed, 'level': 'proof',
        'coverage': {
            'obligations': ob, 'discharged': dis,
            'checker_cmd': 'translator/gen.py (Gen/*.v from /repo) ; coq_makefile && make (coqc 8.16.1, full .vo) of theories/Props/%s.vo with Print Assumptions ; extraction (ExtrOcamlBasic) + harness differential run' % ctx.pid,
            'trusted_base': ['Coq 8.16.1 kernel (vm_compute used, no native_compute)', 'axioms: none (every Print Assumptions is closed under the global context)',
                             'translator/gen.py (Rust tables/constants -> Gen/*.v)', 'Coq extraction with ExtrOcamlBasic only, no Extract Constant; ocaml/driver.ml',
                             'harness/ (Rust) case parsing and canonical printing', 'hand-written models are tied to the code only by the correspondence streams'] + ctx.trusted,
            'obligation_list': [{'name': n, 'ok': ok, 'detail': d[:300]} for (n, ok, d) in ctx.obligations],
            'evaluations': ctx.evaluations, 'distinct_nontrivial': len(ctx.nontrivial),
            'rule': ctx.distribution.get('rule', 'distinct case lines (sha1) that exercised a non-refused, non-empty path'),
            'samples': ctx.samples[:8] if ctx.samples else ['(none)'],
            'traces_validated_against_impl': ctx.traces_validated,
            'streams': ctx.streams, 'distribution': ctx.distribution,
            'partial_or_refuted_theorems': ctx.partial, 'known_findings_printed': ctx.known_printed, 'notes': ctx.notes,
        },
        'assumptions': ['model-to-code tie is differential testing bounded by the generators', 'extraction and the OCaml compiler preserve the model semantics'] + ctx.trusted,
        'wall_s': round(time.time() - ctx.t0, 2), 'violations': nviol,
    }
    ev['coverage'].update(ctx.extra_cov)
    os.makedirs(os.path.join(VERIF, 'evidence'), exist_ok=True)
    json.dump(ev, open(os.path.join(VERIF, 'evidence', f'{ctx.pid}.json'), 'w'), indent=1)

def hexs(b):
    return bytes(b).hex() if len(b) else '-'
