"""Generator of file-system operation histories (shared by C01..C06, C19).  Every random choice comes from
the Random instance handed in, so a (seed, index) pair replays exactly."""
import string

FS = {
 'dos33': dict(labels=['do:5.25in', 'nib:5.25in', 'woz2:5.25in', 'woz1:5.25in', '2mg-do:5.25in', '2mg-nib:5.25in'], holes=True, dirs=False, maxname=30,
               types=[0, 1, 2, 4], idx_bounds=[121, 122, 123, 124, 244, 245], ext=False, big=300),
 'dos32': dict(labels=['d13:5.25in-13', 'nib:5.25in-13', 'woz2:5.25in-13', 'woz1:5.25in-13'], holes=True, dirs=False, maxname=30,
               types=[0, 1, 2, 4], idx_bounds=[121, 122, 123, 124, 244, 245], ext=False, big=300),
 'prodos': dict(labels=['po:5.25in', 'do:5.25in', 'woz2:5.25in', 'nib:5.25in', '2mg-do:5.25in', 'po:3.5in-ds', 'po:3.5in-ss', 'woz2:3.5in-ss', '2mg-po:3.5in-ds', 'woz1:5.25in'],
                holes=True, dirs=True, maxname=15, types=[4, 6, 0xfc, 0xff, 0x00], idx_bounds=[1, 2, 255, 256, 257, 258, 511, 512, 513], ext=False, big=600),
 'pascal': dict(labels=['po:5.25in', 'do:5.25in', 'woz2:5.25in', 'nib:5.25in', 'po:3.5in-ds'], holes=False, dirs=False, maxname=15, types=[2, 3, 5],
                idx_bounds=[1, 2], ext=False, big=280),
 'cpm2': dict(labels=['do:5.25in', 'nib:5.25in', 'woz2:5.25in', 'imd:8in', 'td0:8in', 'imd:5.25in-osb-sd', 'imd:5.25in-osb-dd', 'td0:5.25in-kayii', 'imd:5.25in-kay4',
                      'imd:8in-trs80', 'td0:8in-nabu', 'imd:3in-amstrad', 'td0:5.25in-osb-sd', 'imd:5.25in-kayii'],
              holes=True, dirs=False, maxname=8, types=[None], idx_bounds=[7, 8, 9, 15, 16, 17, 31, 32, 33, 64, 65], ext=True, users=True, big=200),
 'cpm3': dict(labels=['do:5.25in', 'imd:5.25in-kayii', 'imd:8in', 'td0:5.25in-kay4', 'imd:3in-amstrad'], holes=True, dirs=False, maxname=8, types=[None],
              idx_bounds=[7, 8, 9, 15, 16, 17, 31, 32, 33], ext=True, users=True, big=200),
 'fat': dict(labels=['img:5.25in-ibm-ssdd8', 'img:5.25in-ibm-ssdd9', 'img:5.25in-ibm-dsdd8', 'img:5.25in-ibm-dsdd9', 'img:5.25in-ibm-dshd', 'img:3.5in-ibm-720',
                     'img:3.5in-ibm-1440', 'imd:5.25in-ibm-dsdd9', 'td0:5.25in-ibm-dsdd9', 'imd:3.5in-ibm-720', 'td0:3.5in-ibm-1440', 'img:5.25in-ibm-dsqd'],
             holes=False, dirs=True, maxname=8, types=[None], idx_bounds=[1, 2, 3], ext=True, big=800),
}
SMALL_LABELS = {  # quick tier: small volumes, one of each container family
 'dos33': ['do:5.25in', 'woz2:5.25in', 'nib:5.25in'], 'dos32': ['d13:5.25in-13', 'woz2:5.25in-13'],
 'prodos': ['po:5.25in', 'do:5.25in', 'woz2:5.25in', '2mg-do:5.25in'], 'pascal': ['po:5.25in', 'do:5.25in'],
 'cpm2': ['do:5.25in', 'imd:5.25in-osb-sd', 'td0:5.25in-kayii', 'imd:8in'], 'cpm3': ['do:5.25in', 'imd:5.25in-kayii'],
 'fat': ['img:5.25in-ibm-ssdd8', 'img:5.25in-ibm-ssdd9', 'img:5.25in-ibm-dsdd9', 'imd:5.25in-ibm-dsdd9', 'td0:5.25in-ibm-dsdd9'],
}

ALNUM = string.ascii_uppercase + string.digits

def gen_name(rng, cfg, fs):
    n = rng.choice([1, 2, 3, 5, cfg['maxname'], cfg['maxname'] - 1, rng.randrange(1, cfg['maxname'] + 1)])
    n = max(1, min(n, cfg['maxname']))
    first = rng.choice(string.ascii_uppercase)
    body = ''.join(rng.choice(ALNUM) for _ in range(n - 1))
    if fs == 'prodos' and n > 2 and rng.random() < 0.2:
        body = body[:1] + '.' + body[2:]
    if fs.startswith('dos') and n > 3 and rng.random() < 0.2:
        body = body[:2] + ' ' + body[3:]
        body = body.rstrip() or 'X'
    name = first + body
    if rng.random() < 0.25:
        name = name.lower()   # case folding
    if cfg['ext']:
        e = rng.choice(['', 'TXT', 'DAT', 'C', 'BAS', 'COM', rng.choice(ALNUM) + rng.choice(ALNUM)])
        if e:
            name = name + '.' + e
    name = name.rstrip()
    if fs == 'pascal':
        name = name.replace(' ', '')
    return name

def chunkspec(rng, cfg, free_hint):
    """returns (spec string, eof_in_last)"""
    r = rng.random()
    eil = rng.choice(['U', '1', 'U', str(rng.randrange(1, 128)), '127', '128', '129', '255'])
    if r < 0.30:
        n = rng.choice([1, 1, 2, 3, 4, 5, 8])
    elif r < 0.45:
        n = rng.choice(cfg['idx_bounds'])
    elif r < 0.55:
        n = rng.randrange(1, cfg['big'])
    elif r < 0.75:
        return 'F' + str(rng.choice([-3, -2, -1, 0, 1, -4, -5, 2])), eil
    elif cfg['holes']:
        # sparse patterns
        end = rng.choice([3, 8, 17, 40, 130, 260, 300] + cfg['idx_bounds'])
        pat = rng.choice(['firstlast', 'lastonly', 'every3', 'block', 'random'])
        if pat == 'firstlast':
            idx = [0, end - 1] if end > 1 else [0]
        elif pat == 'lastonly':
            idx = [end - 1]
        elif pat == 'every3':
            idx = [i for i in range(end) if i % 3 == 0]
            if (end - 1) not in idx:
                idx.append(end - 1)
        elif pat == 'block':
            a = rng.randrange(end)
            idx = sorted(set([0] + list(range(a, min(end, a + rng.randrange(1, 20))))))
        else:
            idx = sorted(set([0] + [rng.randrange(end) for _ in range(rng.randrange(1, 12))]))
        return fmt_idx(idx), eil
    else:
        n = rng.choice([1, 2, 6, 20, 50])
    return (f'0-{n - 1}' if n > 1 else '0'), eil

def fmt_idx(v):
    out = []
    i = 0
    while i < len(v):
        j = i
        while j + 1 < len(v) and v[j + 1] == v[j] + 1:
            j += 1
        out.append(f'{v[i]}-{v[j]}' if j > i else f'{v[i]}')
        i = j + 1
    return ','.join(out)

def spell(rng, p, fs=None, invalid_ok=True):
    """another spelling of the same name: every file system here folds case (a user prefix or directory part is kept); CP/M user
    numbers can be written 0, 00, +0; and spellings that name nothing (a blank before the dot on FAT, a second colon on CP/M)"""
    r = rng.random()
    if r < 0.25:
        return p.lower() if rng.random() < 0.7 else ''.join(c.lower() if rng.random() < 0.5 else c for c in p)
    if fs and fs.startswith('cpm') and r < 0.40:
        u, n = p.split(':', 1) if ':' in p else ('0', p)
        return rng.choice(['0' + u, '+' + u, '00' + u, u]) + ':' + n + (rng.choice(['', '', '', ':X']) if invalid_ok else '')
    if fs == 'fat' and invalid_ok and r < 0.35 and '.' in p.rsplit('/', 1)[-1]:
        head, last = (p.rsplit('/', 1) + [None])[:2] if '/' in p else (None, p)
        b, e = last.split('.', 1)
        if len(b) < 8:
            last = b + ' .' + e
        return (head + '/' + last) if head is not None else last
    return p


def history(rng, fs, nops, lock_heavy=False, valid_only=False):
    cfg = FS[fs]
    live = []      # names the generator believes exist (files)
    dirs = ['']
    ops = []
    for _ in range(nops):
        r = rng.random()
        d = rng.choice(dirs) if cfg['dirs'] else ''
        def full(n):
            return (d + '/' + n) if d else n
        if r < 0.42 or not live:
            name = gen_name(rng, cfg, fs)
            if cfg.get('users') and rng.random() < 0.2:
                name = f"{rng.choice([1, 3, 15])}:{name}"
            spec, eil = chunkspec(rng, cfg, None)
            ty = rng.choice(cfg['types'])
            aux = rng.choice([0, 0x2000, 0x0801, 0xffff]) if fs == 'prodos' else None
            p = full(name)
            ops.append(f"P~{p}~{spec}~{eil}~{'' if ty is None else ty}~{'' if aux is None else aux}~v")
            live.append(p)
        elif r < 0.57:
            p = rng.choice(live)
            ops.append(f"D~{spell(rng, p, fs, not valid_only)}")
            if rng.random() < 0.9:
                live.remove(p)
        elif r < 0.65:
            p = rng.choice(live)
            nn = gen_name(rng, cfg, fs)
            if ':' in p:
                nn = p.split(':')[0] + ':' + nn     # CP/M: stay in the same user area
            ops.append(f"R~{spell(rng, p, fs, not valid_only)}~{spell(rng, nn, fs, not valid_only)}")
            live.remove(p)
            live.append((p.rsplit('/', 1)[0] + '/' + nn) if '/' in p else nn)
        elif r < (0.85 if lock_heavy else 0.72):
            p = rng.choice(live)
            ops.append(f"{rng.choice('LLU')}~{spell(rng, p, fs, not valid_only)}")
        elif r < 0.75 and fs in ('dos33', 'dos32', 'prodos'):
            p = rng.choice(live)
            ty = rng.choice({'dos33': ['txt', 'bin', 'atok', 'itok'], 'dos32': ['txt', 'bin', 'itok'], 'prodos': ['txt', 'bin', 'atok', 'sys']}[fs])
            ops.append(f"T~{p}~{ty}~{rng.choice(['0', '8192', '2049'])}")
        elif r < 0.82 and cfg['dirs']:
            nm = gen_name(rng, dict(cfg, ext=False, maxname=min(8, cfg['maxname'])), fs).upper()
            p = full(nm)
            ops.append(f"M~{p}")
            dirs.append(p)
        elif r < 0.88:
            # intentionally refused: duplicate name / rename onto existing
            p = rng.choice(live)
            if cfg['dirs'] and len(dirs) > 1 and rng.random() < 0.35:
                # files and directories share one name space: rename, put or mkdir onto a name held by the other kind
                dd = rng.choice(dirs[1:])
                par = lambda q: q.rsplit('/', 1)[0] if '/' in q else ''
                sib_f = [q for q in live if par(q) == par(dd)]
                sib_d = [q for q in dirs[1:] if par(q) == par(dd) and q != dd]
                k = rng.randrange(5)
                if k == 0 and sib_f:
                    ops.append(f"R~{rng.choice(sib_f)}~{spell(rng, dd.rsplit('/', 1)[-1], fs, False)}")
                elif k == 1 and sib_f:
                    ops.append(f"R~{dd}~{spell(rng, rng.choice(sib_f).rsplit('/', 1)[-1], fs, False)}")
                elif k == 2 and sib_d:
                    ops.append(f"R~{dd}~{rng.choice(sib_d).rsplit('/', 1)[-1]}")
                elif k == 3:
                    ops.append(f"M~{spell(rng, p, fs, False)}")
                else:
                    ops.append(f"P~{spell(rng, dd, fs, False)}~0~U~~")
            elif rng.random() < 0.5 or len(live) < 2:
                ops.append(f"P~{spell(rng, p, fs, not valid_only)}~0~U~~")
            else:
                q = rng.choice(live)
                tgt = q.rsplit('/', 1)[-1]
                if cfg.get('users'):
                    # CP/M: rename onto a name of the same user area (must be refused) or the same name in another area (must be accepted)
                    u = p.split(':')[0] if ':' in p else '0'
                    tgt = u + ':' + tgt.split(':')[-1]
                ops.append(f"R~{p}~{spell(rng, tgt, fs, not valid_only)}")
        elif r < 0.91:
            ops.append(rng.choice([f"D~NOSUCH{rng.randrange(100)}", f"R~NOSUCH{rng.randrange(100)}~ZZ", f"L~NOSUCH{rng.randrange(100)}"]))
        elif r < 0.94:
            # patterns and the dot entries of directories are not files: lock, unlock, rename, retype and delete must leave everything alone
            p = rng.choice(live)
            base = p.rsplit('/', 1)[-1]
            pat = rng.choice([base[:1] + '*', '*', base[:1] + '?' * max(1, len(base) - 1), '*.*', 'ZZ*'])
            if cfg['dirs'] and len(dirs) > 1 and rng.random() < 0.4:
                pat = rng.choice(dirs[1:]) + rng.choice(['/..', '/.'])
            elif '/' in p:
                pat = p.rsplit('/', 1)[0] + '/' + pat
            ops.append(rng.choice([f"L~{pat}", f"U~{pat}", f"R~{pat}~ZZZ", f"D~{pat}"]))
        elif valid_only:
            continue
        else:
            bad = rng.choice(['', 'A' * 40, 'BAD*NAME', '9STARTDIGIT' * 2, 'A,B', 'NAME/'])
            ops.append(f"P~{bad or 'X' * 70}~0~U~~")
    return ';'.join(ops)


def dirfill_history(rng, fs, cap_hint):
    """fill a directory to its capacity with one-unit files (the last few puts are expected to be refused), delete some,
    then store larger files into the freed slots: exercises the last slot, slot reuse and allocation next to a full directory"""
    cfg = FS[fs]
    ops = []
    names = []
    ext = '.D' if cfg['ext'] else ''
    for i in range(cap_hint + 2):
        n = f"F{i}{ext}"
        names.append(n)
        ops.append(f"P~{n}~0~{rng.choice(['U', '1', '100'])}~~")
    victims = rng.sample(names[:cap_hint], min(4, cap_hint))
    for v in victims[:2]:
        ops.append(f"D~{v}")
    ops.append(f"P~NEW1{ext}~0-{rng.choice([1, 2, 5])}~U~~")
    ops.append(f"P~NEW2{ext}~0-{rng.choice([1, 3, 9])}~77~~")
    ops.append(f"D~{victims[2]}" if len(victims) > 2 else "D~NEW1" + ext)
    ops.append(f"R~{names[cap_hint - 1]}~LAST{ext}")
    ops.append(f"P~NEW3{ext}~F-2~U~~")
    return ';'.join(ops)

def slotfill_history(rng, fs, n):
    """files with names of the greatest length stored one after the other, each read back at once (directory entries that straddle a
    block boundary, stale entry tails); at every tenth file count one file is deleted, one renamed to another long name and one
    stored again, so that a count at which the last entry sits alone in a directory block is passed in both directions"""
    cfg = FS[fs]
    ops = []
    def nm(tag, i):
        base = f"{tag}{i}"
        base = base + 'X' * (cfg['maxname'] - len(base))
        return base + ('.DAT' if cfg['ext'] else '')
    live = []
    for i in range(n):
        ops.append(f"P~{nm('F', i)}~0~{rng.choice(['1', '100', '255'])}~~~v")
        live.append(nm('F', i))
        if len(live) % 10 == 0 or len(live) in (19, 39, 59):
            v = live[len(live) // 2]
            ops.append(f"D~{v}")
            live.remove(v)
            ops.append(f"D~{live[-1]}")          # the last entry goes, then comes back
            last = live.pop()
            ops.append(f"P~{last}~0~77~~~v")
            live.append(last)
            ops.append(f"R~{live[-1]}~{nm('R', i)}")
            live[-1] = nm('R', i)
            ops.append(f"P~{v}~0-1~33~~~v")
            live.append(v)
    return ';'.join(ops)

DIR_CAPS = {'dos33': 105, 'dos32': 84, 'prodos': 51, 'pascal': 77, 'fat': None, 'cpm2': None, 'cpm3': None}


def needs_dense(fs, n):
    if fs in ('dos33', 'dos32'):
        return n + 1 + (n - 1) // 122
    if fs == 'prodos':
        return n + (1 if n > 1 else 0) + ((1 + (n - 1) // 256) if n > 256 else 0)
    return n

def exactfit_history(rng, fs, b, delta):
    """leave exactly needs(b)+delta units free, then store a dense file of b chunks (must be accepted for delta>=0),
    delete it (free count restored), store it again with a short last chunk"""
    ext = '.T' if FS[fs]['ext'] else ''
    k = needs_dense(fs, b) + delta
    last = f"0-{b - 1}" if b > 1 else "0"
    return ';'.join([f"P~KEEP{ext}~0-2~U~~~v", f"Z~{k}", f"P~T{ext}~{last}~U~~~v", f"D~T{ext}", f"P~T2{ext}~{last}~1~~~v", f"D~KEEP{ext}", f"P~AFTER{ext}~0-1~U~~~v"])
