#!/bin/sh
# usage: lib/try_seeded.sh <seeded-dir> <PROP> [tier]   -- apply the patch to /repo, run the check, undo
d=$1; p=$2; t=${3:-quick}
cd /repo && git apply /verif/seeded/$d/patch.diff || { echo "patch does not apply"; exit 2; }
cd /verif && ./check $p --tier $t; rc=$?
cd /repo && git checkout -- . 
echo "exit=$rc"
