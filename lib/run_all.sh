#!/bin/sh
# run every claimed check (quick tier) on the current tree and validate manifest + evidence
cd /verif
fail=0
for p in $(python3 -c "import json; print(' '.join(c['property_id'] for c in json.load(open('MANIFEST.json'))['checks']))"); do
  out=$(VERIF_SEED=${VERIF_SEED:-1} ./check $p --tier ${1:-quick} 2>&1 | grep -v "^KNOWN" | tail -2 | tr '\n' ' ')
  echo "$out"
  case "$out" in *VIOLATION*) fail=1;; esac
  case "$out" in *"obligations "*) ;; *) echo "  (no result line: the check itself failed)"; fail=1;; esac
done
python3-vt - <<'PY'
import json, jsonschema, glob
m=json.load(open('/verif/MANIFEST.json')); jsonschema.validate(m, json.load(open('/root/.vp/MANIFEST.schema.json')))
es=json.load(open('/root/.vp/EVIDENCE.schema.json'))
for c in m['checks']:
    e=json.load(open(c['evidence_file'])); jsonschema.validate(e, es)
    cov=e['coverage']
    assert cov['obligations']==cov['discharged'], (c['property_id'], cov['obligations'], cov['discharged'])
print('manifest + evidence valid, all obligations discharged')
PY
exit $fail
