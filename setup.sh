#!/bin/sh
# MANIFEST.setup_cmd: build the whole framework offline from files on disk.
set -e
cd "$(dirname "$0")"
export CARGO_NET_OFFLINE=true
python3 translator/gen.py --repo /repo
( cd coq && coq_makefile -f _CoqProject -o Makefile >/dev/null 2>&1 && timeout 3000 make -j16 >../.build-coq.log 2>&1 ) || { tail -30 .build-coq.log; echo "coq build failed (checks will report it per property)"; }
mkdir -p .build/ocaml
( cd .build/ocaml && coqc -Q ../../coq/theories A2 ../../coq/extract/Extract.v >/dev/null && cp ../../ocaml/driver.ml . && rm -f model.mli && ocamlfind ocamlopt -O3 -w -a model.ml driver.ml -o model_driver ) || echo "model build failed"
[ -f harness/Cargo.lock ] || cp /repo/Cargo.lock harness/Cargo.lock
( cd harness && RUSTFLAGS="--cfg a2kit_verif" CARGO_TARGET_DIR=../.build/target cargo build --offline 2>&1 | tail -2 )
( cd /repo && RUSTFLAGS="--cfg a2kit_verif" CARGO_TARGET_DIR=/verif/.build/target-bins cargo build --offline --bins 2>&1 | tail -2 )
gcc -shared -fPIC -O2 -o .build/fixclock.so lib/fixclock.c -ldl || echo "fixclock build failed"
echo setup done
